"""Loops with invariants (Hoare rule: init / havoc+assume / preserve+variant / exit), lemma calls,
defined spec functions with fuel."""
from __future__ import annotations

import ast

import z3

from . import loader, smt
from .smt import S, V, Bool, Int, fn
from .values import *  # noqa: F403


class Poison(Val):
    """Value of a loop-assigned variable whose entry value must not be read."""

    def __init__(self, name):
        self.name = name


class LoopCut(Exception):
    """End of a loop-body path after the preservation obligations were emitted."""


def assigned_names(stmts):
    out = set()
    for st in stmts:
        for sub in ast.walk(st):
            if isinstance(sub, (ast.Assign, ast.AugAssign, ast.AnnAssign)):
                tgts = sub.targets if isinstance(sub, ast.Assign) else [sub.target]
                for t in tgts:
                    for n in ast.walk(t):
                        if isinstance(n, ast.Name):
                            out.add(n.id)
            elif isinstance(sub, ast.For):
                for n in ast.walk(sub.target):
                    if isinstance(n, ast.Name):
                        out.add(n.id)
            elif isinstance(sub, ast.NamedExpr):
                out.add(sub.target.id)
            elif isinstance(sub, ast.Call) and isinstance(sub.func, ast.Attribute) and isinstance(sub.func.value, ast.Name) \
                    and sub.func.attr in ("append", "extend", "pop", "insert", "remove", "clear", "sort", "reverse", "add", "update", "discard", "setdefault", "popitem"):
                out.add(sub.func.value.id)      # mutated in place: part of the loop's frame
    return out


def havoc_like(I, name, val, node):
    """A fresh symbolic value of the same shape/kind as val."""
    c = I.ctx
    nm = I.fresh_name(node, f"hv_{name}")
    if isinstance(val, (SymInt,)) or (isinstance(val, Conc) and isinstance(val.obj, int) and not isinstance(val.obj, bool)):
        return SymInt(z3.Const(nm, Int))
    if isinstance(val, SymBool) or (isinstance(val, Conc) and isinstance(val.obj, bool)):
        return SymBool(z3.Const(nm, Bool))
    if isinstance(val, SymV):
        return SymV(z3.Const(nm, V))
    if isinstance(val, SymList):
        return SymList(z3.Const(nm, S))
    if isinstance(val, SymSeq):
        return SymSeq(z3.Const(nm, S), val.kind)
    if isinstance(val, PyTuple):
        return PyTuple([havoc_like(I, f"{name}{i}", x, node) for i, x in enumerate(val.items)])
    if isinstance(val, PyList):
        return SymList(z3.Const(nm, S))
    if isinstance(val, SymReal):
        return SymReal(z3.Const(nm, smt.Real))
    if isinstance(val, SymBV):
        return SymBV(z3.Const(nm, val.t.sort()))
    raise Unsupported(f"cannot havoc loop variable {name} of kind {type(val).__name__}")


def namespace(I, env, frame_olds):
    ns = SymObj(object, {}, None)
    e = env
    seen = set()
    while e is not None:
        for k, v in e.vars.items():
            if k not in seen:
                seen.add(k)
                ns.attrs[k] = v
        e = e.parent
    for k, v in frame_olds.items():
        ns.attrs["old_" + k] = v
    return ns


def check_now(I, name, thunk, goal):
    """Obligation: the boolean returned by thunk holds on the current path."""
    import time
    from .verify import Obligation, _model_text
    t0 = time.time()
    status, detail, model = "discharged", "", ""
    outs = I.explore(thunk)
    for po in outs:
        if po.kind == "exc":
            r, mdl = smt.check(I.ctx, I.pcs + po.pcs, rlimit=I.ob_rlimit)
            if r != "unsat":
                status, detail = "undecided", f"annotation raised {po.value!r}"
            continue
        t = I.truth(po.value)
        if t is True:
            continue
        neg = z3.BoolVal(True) if t is False else z3.Not(t)
        r, mdl = smt.check(I.ctx, I.pcs + po.pcs + [neg], rlimit=I.ob_rlimit)
        if r == "sat":
            status, detail, model = "refuted", goal, _model_text(mdl)
            break
        if r == "unknown":
            status, detail = "undecided", f"solver unknown: {mdl}"
    I.extra_obligations.append(Obligation(name, status, "z3", time.time() - t0, detail, model, goal=goal))


def install(I, loops, fname, olds_thunk):
    """loops: ordinal -> api.Loop.  Installs the while/for hooks for the function under verification."""
    I.extra_obligations = []
    I.ob_rlimit = 50_000_000
    state = {"ordinals": {}}

    def ordinal(node):
        key = (node.lineno, node.col_offset)
        if key not in state["ordinals"]:
            state["ordinals"][key] = len(state["ordinals"])
        return state["ordinals"][key]

    def while_hook(I, s, env):
        k = ordinal(s)
        ann = loops.get(k)
        if ann is None:
            return False
        if s.orelse:
            raise Unsupported("while/else with invariant")
        if ann.unroll is not None:
            from .interp import _Break, _Continue
            for it in range(ann.unroll):
                if not I.is_true(I.eval(s.test, env)):
                    return True
                try:
                    I.exec_block(s.body, env)
                except _Continue:
                    continue
                except _Break:
                    return True
            # unwinding assertion: after `unroll` iterations the loop has exited
            tag = f"{fname}#loop{k}"
            check_now(I, f"{tag}/unwinding[{ann.unroll}]/path{len([e for e in I.loop_emitted if e[0] == tag])}",
                      lambda: (lambda t: Conc(not t) if isinstance(t, bool) else SymBool(z3.Not(t)))(I.truth(I.eval(s.test, env))),
                      f"the loop exits within {ann.unroll} iterations (complete unrolling at the stated width)")
            I.loop_emitted.add((tag, "unw", len(I.loop_emitted)))
            I.assume_path_bool(lambda: (lambda t: Conc(not t) if isinstance(t, bool) else SymBool(z3.Not(t)))(I.truth(I.eval(s.test, env))))
            return True
        olds = olds_thunk()
        tag = f"{fname}#loop{k}"
        emitted = I.loop_emitted

        def inv_holds(e):
            return lambda: I.call_function(Conc(ann.invariant), [namespace(I, e, olds)], {})
        # ghost variables
        for gname, ginit in ann.ghost.items():
            gv = I.call_function(Conc(ginit), [namespace(I, env, olds)], {}) if callable(ginit) else Conc(ginit)
            env.assign(gname, gv)
        # 1. initialisation
        key = (tag, "init", tuple(I.oracles[-1].decisions[:I.oracles[-1].pos]) if I.oracles else ())
        if key not in emitted:
            emitted.add(key)
            check_now(I, f"{tag}/invariant-init", inv_holds(env), "the loop invariant holds on entry")
        # 2. havoc
        names = assigned_names(s.body) | set(ann.ghost)
        for nme in sorted(names):
            try:
                cur = env.lookup(nme)
            except Unsupported:
                continue
            try:
                env.assign(nme, havoc_like(I, nme, cur, s))
            except Unsupported:
                # a variable of another kind that the body re-assigns: dead at the loop head unless read first
                env.assign(nme, Poison(nme))
        I.assume_path_bool(inv_holds(env))
        var0 = None
        if ann.variant is not None:
            v0 = I.call_function(Conc(ann.variant), [namespace(I, env, olds)], {})
            var0 = I.as_int(v0)
        # 3. condition
        if I.is_true(I.eval(s.test, env)):
            from .interp import _Break, _Continue
            if ann.hint is not None:
                I.call_function(Conc(ann.hint), [namespace(I, env, olds)], {})
            try:
                I.exec_block(s.body, env)
            except _Continue:
                pass
            except _Break:
                return True
            if ann.ghost_update is not None:
                upd = I.call_function(Conc(ann.ghost_update), [namespace(I, env, olds)], {})
                if not isinstance(upd, PyDict):
                    raise Unsupported("ghost_update must return a dict literal")
                for gname, gval in upd.d.items():
                    env.assign(gname, gval)
            key = (tag, "pres", tuple(I.oracles[-1].decisions[:I.oracles[-1].pos]))
            if key not in emitted:
                emitted.add(key)
                n_p = sum(1 for kk in emitted if kk[0] == tag and kk[1] == "pres")
                check_now(I, f"{tag}/invariant-preserved/path{n_p - 1}", inv_holds(env), "the loop body preserves the invariant")
                if ann.variant is not None:
                    def dec():
                        v1 = I.as_int(I.call_function(Conc(ann.variant), [namespace(I, env, olds)], {}))
                        return SymBool(z3.And(var0 >= 0, v1 < var0))
                    check_now(I, f"{tag}/variant-decreases/path{n_p - 1}", dec, "the variant is non-negative and strictly decreases")
            raise LoopCut()
        # exit: ghost values become existential witnesses
        for gname in ann.ghost:
            gi = I.as_int(env.lookup(gname))
            if gi is not None:
                I.ghost_log.append(("witness", gi))
        return True
    I.builtin_handlers["__while_hook__"] = while_hook
    I.loop_emitted = set()


def install_lemmas(I):
    """Calls of @lemma functions: check `requires`, then assume the returned statement (path-local)."""
    from . import api

    def make(f):
        def handler(I, args, kwargs, star, dstar, node):
            if I.lemma_stack and I.lemma_stack[-1][0] is f:
                # recursive use = induction hypothesis: must be on a smaller measure
                meas = I.lemma_stack[-1][1]
                new = lemma_measure(I, f, args)
                if meas is not None and new is not None:
                    check_now(I, f"lemma {f.__name__}/decreases", lambda: SymBool(z3.And(new >= 0, new < meas)),
                              "the induction hypothesis is used on a smaller argument")
            info = loader.get_func_info(f)
            # evaluate the statement (return expression) with `requires` turned into obligations, nested
            # proof steps (the body's other calls) skipped: we only need requires + the returned formula
            I.lemma_use_depth += 1
            try:
                from .interp import Env
                env = Env({}, None, f.__globals__)
                params = [a.arg for a in info.node.args.args]
                for p_, v in zip(params, args):
                    env.assign(p_, v)
                stmts = info.node.body
                for st in stmts:
                    if isinstance(st, ast.Expr) and isinstance(st.value, ast.Call) and getattr(st.value.func, "id", "") == "requires":
                        check_now(I, f"use of lemma {f.__name__}/requires", lambda st=st: I.eval(st.value.args[0], env), "lemma precondition at the call site")
                ret = [st for st in stmts if isinstance(st, ast.Return)]
                if len(ret) != 1:
                    raise Unsupported("lemma must end in exactly one top-level return of its statement")
                I.assume_path_bool(lambda: I.eval(ret[0].value, env))
            finally:
                I.lemma_use_depth -= 1
            return Conc(True)
        return handler
    for f in api.LEMMAS.values():
        I.contracts[id(f)] = make(f)

    def _fresh_int(I, args, kwargs, star, dstar, node):
        return SymInt(z3.Const(I.fresh_name(node, "fresh"), Int))
    I.builtin_handlers[api.fresh_int] = _fresh_int

    def _assume(I, args, kwargs, star, dstar, node):
        I.assume_path_bool(lambda: args[0])
        return Conc(None)
    I.builtin_handlers[api.assume] = _assume

    def _witness(I, args, kwargs, star, dstar, node):
        t = I.as_int(args[0])
        if t is not None:
            I.ghost_log.append(("witness", t))
        return Conc(None)
    I.builtin_handlers[api.witness] = _witness

    def _divides(I, args, kwargs, star, dstar, node):
        d, x = I.as_int(args[0]), I.as_int(args[1])
        if d is None or x is None:
            raise Unsupported("divides on non-integers")
        pool = [g[1] for g in list(I.ghost_log) + list(getattr(I, "current_ghost", [])) if g[0] == "witness"]
        cands = [x == k * d for k in pool] + [z3.And(x == 0), x == d, x == -d]
        return SymBool(z3.Or(*cands))
    I.builtin_handlers[api.divides] = _divides

    def _requires(I, args, kwargs, star, dstar, node):
        I.assume_path_bool(lambda: args[0])
        return Conc(None)
    I.builtin_handlers[api.requires] = _requires
    I.lemma_stack = []
    I.lemma_use_depth = 0


def lemma_measure(I, f, args):
    dec = getattr(f, "__pyvc_decreases__", None)
    if dec is None:
        return None
    v = I.call_function(Conc(dec), list(args), {})
    return I.as_int(v)


def verify_lemma(f, specs, rlimit=50_000_000):
    """Prove a lemma: run its body with requires assumed; recursive calls give the induction hypothesis."""
    import time
    import traceback
    from . import verify
    from .interp import Interp
    t0 = time.time()
    rep = dict(contract=f"lemma {f.__name__}", obligations=[], status="ok", function=None, paths=0, time_s=0.0)
    ctx = smt.Ctx()
    I = Interp(ctx, class_table=[])
    I.new_objects, I.map_defs, I.map_info = [], {}, {}
    I.op_may_raise = False
    I.extra_obligations = []
    I.ob_rlimit = rlimit
    I.loop_emitted = set()
    for sp in specs:
        verify.install_spec(I, sp)
    install_lemmas(I)
    try:
        info = loader.get_func_info(f)
        rep["function"] = info.describe()
        kinds = getattr(f, "__pyvc_params__", None) or ["int"] * len(info.node.args.args)
        inputs = [verify.make_input(I, a.arg, k) for a, k in zip(info.node.args.args, kinds)]
        del I.contracts[id(f)]            # the lemma under proof is executed, not assumed ...
        meas0 = lemma_measure(I, f, inputs)

        def rec_handler(I, args, kwargs, star, dstar, node):   # ... except in recursive calls (IH)
            I.lemma_stack.append((f, meas0))
            try:
                from .loops import install_lemmas as _il
                saved = I.contracts.get(id(f))
                h = I.ih_handler
                return h(I, args, kwargs, star, dstar, node)
            finally:
                I.lemma_stack.pop()
        # build the assume-handler for f and wrap it as IH
        install_lemmas(I)
        I.ih_handler = I.contracts[id(f)]
        I.contracts[id(f)] = rec_handler
        fobj = f

        def run():
            from .interp import Env
            env = Env({}, None, fobj.__globals__)
            for a, v in zip(info.node.args.args, inputs):
                env.assign(a.arg, v)
            try:
                I.exec_block(info.node.body, env)
            except Exception as e:  # noqa: BLE001
                from .interp import _Return
                if isinstance(e, _Return):
                    return e.v
                raise
            return Conc(True)
        outs = I.explore(run)
        rep["paths"] = len(outs)
        from .verify import Obligation, _model_text
        for i, o in enumerate(outs):
            if o.kind != "ret":
                r, mdl = smt.check(ctx, o.pcs, rlimit=rlimit)
                st = "discharged" if r == "unsat" else "undecided"
                rep["obligations"].append(Obligation(f"lemma {f.__name__}/path{i}", st, "z3", 0.0, f"raises {o.value!r}", "", goal="proof body does not fail").as_dict())
                continue
            t = I.truth(o.value)
            if t is True:
                rep["obligations"].append(Obligation(f"lemma {f.__name__}/path{i}", "discharged", "z3", 0.0, "", "", goal="statement").as_dict())
                continue
            neg = z3.BoolVal(True) if t is False else z3.Not(t)
            t1 = time.time()
            r, mdl = smt.check(ctx, o.pcs + [neg], rlimit=rlimit)
            st = {"unsat": "discharged", "sat": "refuted"}.get(r, "undecided")
            rep["obligations"].append(Obligation(f"lemma {f.__name__}/path{i}", st, "z3", time.time() - t1,
                                                 "" if r == "unsat" else f"statement not established ({r}: {mdl if r != 'sat' else ''})",
                                                 _model_text(mdl) if r == "sat" else "", goal=(f.__doc__ or "")[:200]).as_dict())
        rep["obligations"] += [o.as_dict() for o in I.extra_obligations]
    except Unsupported as e:
        rep["status"] = "unsupported"
        rep["reason"] = str(e)
    except Exception as e:  # noqa: BLE001
        rep["status"] = "engine-error"
        rep["reason"] = f"{type(e).__name__}: {e}"
        rep["traceback"] = traceback.format_exc()[-1500:]
    rep["time_s"] = time.time() - t0
    rep["solver_time_s"] = ctx.stats["time"]
    return rep

"""Engine semantics of builtins and a few library functions (the Python semantics PyVC assumes)."""
from __future__ import annotations

import builtins
import functools
import inspect
import operator
import types
import typing
import warnings

import z3

from . import smt
from .smt import S, V, Bool, Int, Str, fn
from .values import *  # noqa: F403


def PURE_CONCRETE_OK(obj):
    owner = getattr(obj, "__self__", None)
    if isinstance(owner, (str, tuple, int, float, frozenset, bytes, type(None), bool)):
        return True
    if isinstance(owner, (dict, list, set)):
        return getattr(obj, "__name__", "") in ("get", "items", "keys", "values", "index", "count", "copy",
                                                 "__contains__", "__getitem__", "union", "issubset")
    if getattr(obj, "__module__", None) in ("math", "builtins", "operator", "_operator"):
        return getattr(obj, "__name__", "") not in ("exec", "eval", "open", "print", "input", "setattr", "delattr")
    if isinstance(obj, types.MethodDescriptorType):
        return obj.__objclass__ in (str, tuple, int, float, frozenset)
    return False


def _no_star(star, dstar, what):
    if star is not None or dstar is not None:
        raise Unsupported(f"star arguments to {what}")


def seq_like(I, v):
    """(z3 seq, kind) for a value used as sequence, or None."""
    if isinstance(v, SymSeq):
        return v.t, v.kind
    if isinstance(v, (PyTuple, PyList)):
        return I.as_seq(v), "tuple" if isinstance(v, PyTuple) else "list"
    if isinstance(v, Conc) and isinstance(v.obj, (tuple, list)):
        return I.as_seq(v), "tuple" if isinstance(v.obj, tuple) else "list"
    return None


def fold_term(I, opname, init_t, seq_t):
    """fold_<op>(init, seq): left fold of a binary operator; outcome may raise."""
    c = I.ctx
    val = fn(f"fold_{opname}", V, S, V)(init_t, seq_t)
    c.assume(z3.Implies(z3.Length(seq_t) == 0, val == init_t))
    if I.op_may_raise:
        c.assume(z3.Implies(z3.Length(seq_t) == 0, fn(f"foldok_{opname}", V, S, Bool)(init_t, seq_t)))
        ok = fn(f"foldok_{opname}", V, S, Bool)(init_t, seq_t)
        if not I.decide(ok):
            raise PyRaise(SymExc(None, (), term=fn(f"foldexc_{opname}", V, S, V)(init_t, seq_t), origin=f"fold_{opname}"))
    return SymV(val)


def install(I):
    H = I.builtin_handlers

    def reg(obj):
        def deco(f):
            H[obj] = f
            return f
        return deco

    # ---- len / bool / int / str / repr / hash / id
    @reg(len)
    def _len(I, args, kw, star, dstar, node):
        (v,) = args
        if isinstance(v, Conc):
            try:
                return Conc(len(v.obj))
            except TypeError:
                raise PyRaise(SymExc(TypeError, (), origin="len")) from None
        if isinstance(v, (PyTuple, PyList)):
            return Conc(len(v.items))
        if isinstance(v, SymDict) and v.base is None and not getattr(v, "removed", None):
            # a dict built on this path from nothing: the number of pairwise distinct written keys
            keys = []
            for wk, _wkey, _wv in v.writes:
                if not any(I.decide(wk == k2) for k2 in keys):
                    keys.append(wk)
            return Conc(len(keys))
        if isinstance(v, SymDict) and v.base is not None and not v.writes and not getattr(v, "removed", None):
            # an opaque dict: its size is an uninterpreted non-negative integer (>= 1 as soon as a key is known to be present: the
            # membership decision adds that fact, see symdict_lookup)
            n = fn("dict_len", V, Int)(v.base)
            I.ctx.assume(n >= 0)
            return SymInt(n)
        if isinstance(v, PyDict):
            return Conc(len(v.d))
        if isinstance(v, SymSeq):
            return SymInt(z3.Length(v.t))
        if isinstance(v, SymMap):
            return SymInt(z3.Length(v.keys))
        if isinstance(v, SymStr):
            return SymInt(z3.Length(v.t))
        if isinstance(v, SymV):
            t = fn("py_len", V, Int)(v.t)
            I.ctx.assume(t >= 0)
            return SymInt(t)
        raise Unsupported(f"len of {type(v).__name__}")

    @reg(bool)
    def _bool(I, args, kw, star, dstar, node):
        if not args:
            return Conc(False)
        t = I.truth(args[0])
        return Conc(t) if isinstance(t, bool) else SymBool(t)

    @reg(hash)
    def _hash(I, args, kw, star, dstar, node):
        (v,) = args
        hk = H.get("__hash_hook__")
        if hk is not None:
            r = hk(I, v)
            if r is not None:
                return r
        if isinstance(v, PyDict) or isinstance(v, PyList):
            raise PyRaise(SymExc(TypeError, (), origin="unhashable"))
        if isinstance(v, SymNode):
            m = inspect.getattr_static(v.cls, "__hash__", None)
            if isinstance(m, types.FunctionType):
                return I.call_function(Conc(m), [v], {})
        t = I.lift(v)
        if I.op_may_raise and not isinstance(v, (Conc, SymInt, SymStr, SymBool)):
            if not I.decide(fn("hashable", V, Bool)(t)):
                raise PyRaise(SymExc(TypeError, (), origin="unhashable?"))
        return SymInt(fn("py_hash", V, Int)(t))

    @reg(id)
    def _id(I, args, kw, star, dstar, node):
        return SymInt(fn("py_id", V, Int)(I.lift(args[0])))

    @reg(repr)
    def _repr(I, args, kw, star, dstar, node):
        (v,) = args
        if isinstance(v, Conc) and isinstance(v.obj, (int, str, float, bool, type(None), tuple)):
            return Conc(repr(v.obj))
        return SymV(fn("py_repr", V, V)(I.lift(v)))

    @reg(str)
    def _str(I, args, kw, star, dstar, node):
        if not args:
            return Conc("")
        (v,) = args
        if isinstance(v, Conc) and isinstance(v.obj, (int, str, float, bool, type(None))):
            return Conc(str(v.obj))
        if isinstance(v, SymStr):
            return v
        return SymV(fn("py_str", V, V)(I.lift(v)))

    @reg(int)
    def _int(I, args, kw, star, dstar, node):
        (v,) = args
        if isinstance(v, Conc):
            try:
                return Conc(int(v.obj))
            except Exception as e:  # noqa: BLE001
                raise PyRaise(SymExc(type(e), (), origin="int()")) from None
        if isinstance(v, SymInt):
            return v
        if isinstance(v, SymBool):
            return SymInt(z3.If(v.t, z3.IntVal(1), z3.IntVal(0)))
        return SymV(fn("py_int", V, V)(I.lift(v)))

    @reg(float)
    def _float(I, args, kw, star, dstar, node):
        (v,) = args
        if isinstance(v, Conc):
            try:
                return Conc(float(v.obj))
            except Exception as e:  # noqa: BLE001
                raise PyRaise(SymExc(type(e), (), origin="float()")) from None
        return SymV(fn("py_float", V, V)(I.lift(v)))

    @reg(divmod)
    def _divmod(I, args, kw, star, dstar, node):
        a, b = args
        return PyTuple([I.binop("floordiv", a, b), I.binop("mod", a, b)])

    @reg(abs)
    def _abs(I, args, kw, star, dstar, node):
        (v,) = args
        if isinstance(v, Conc):
            return Conc(abs(v.obj))
        if isinstance(v, SymInt):
            return SymInt(z3.If(v.t >= 0, v.t, -v.t))
        if isinstance(v, SymNode):
            m = inspect.getattr_static(v.cls, "__abs__", None)
            if isinstance(m, types.FunctionType):
                return I.call_function(Conc(m), [v], {})
        return SymV(fn("py_abs", V, V)(I.lift(v)))

    # ---- type tests
    @reg(isinstance)
    def _isinstance(I, args, kw, star, dstar, node):
        v, k = args
        if isinstance(k, PyTuple):
            k = Conc(tuple(x.obj for x in k.items))
        if not isinstance(k, Conc):
            raise Unsupported("isinstance with symbolic class")
        r = I.isinstance_val(v, k.obj)
        return Conc(r) if isinstance(r, bool) else SymBool(r)

    def isinstance_val(v, classes):
        classes = classes if isinstance(classes, tuple) else (classes,)
        if isinstance(v, Conc):
            o = v.obj
            if isinstance(o, tuple) and len(o) == 3 and o[0] == "exc":
                return any(issubclass(o[1], k) for k in classes)
            return isinstance(o, classes)
        if isinstance(v, SymNode):
            return any(issubclass(v.cls, k) for k in classes)
        if isinstance(v, SymObj):
            return any(issubclass(v.cls, k) for k in classes)
        static = {SymInt: int, SymBool: bool, SymStr: str, PyTuple: tuple, PyList: list, PyDict: dict,
                  SymReal: float}
        for sk, pk in static.items():
            if isinstance(v, sk):
                return any(issubclass(pk, k) for k in classes)
        if isinstance(v, SymSeq):
            pk = tuple if v.kind == "tuple" else list
            return any(issubclass(pk, k) for k in classes)
        if isinstance(v, SymMap):
            return any(k in (dict, typing.Mapping) or k.__name__ in ("Mapping", "immutabledict") for k in classes)
        if isinstance(v, SymSet):
            return any(issubclass(set, k) for k in classes)
        if isinstance(v, (Closure, BoundMethod)):
            return False
        if isinstance(v, SymV):
            hk = H.get("__isinstance_hook__")
            if hk is not None:
                r = hk(I, v, classes)
                if r is not None:
                    return r
            disj = []
            for k in classes:
                disj.append(I.isinst_term(v.t, k))
            return z3.Or(*disj) if len(disj) > 1 else disj[0]
        raise Unsupported(f"isinstance of {type(v).__name__}")
    I.isinstance_val = isinstance_val

    def isinst_term(t, k):
        """Symbolic `isinstance(t, k)` with the facts the tag/class tables give."""
        c = I.ctx
        b = fn("isinst", V, Int, Bool)(t, z3.IntVal(I.cls_id(k)))
        # builtins by tag
        tagmap = {int: [smt.TAG_INT, smt.TAG_BOOL], bool: [smt.TAG_BOOL], str: [smt.TAG_STR],
                  tuple: [smt.TAG_TUPLE], list: [smt.TAG_LIST], type(None): [smt.TAG_NONE]}
        if k in tagmap:
            c.assume(b == z3.Or(*[smt.tag(t) == g for g in tagmap[k]]))
        elif I.is_expr_class(k) if isinstance(k, type) else False:
            # node classes: membership determined by the class-table index (closed world over known classes)
            subs = [i for cl, i in list(I.class_index.items()) if isinstance(cl, type) and issubclass(cl, k)
                    and I.is_expr_class(cl)]
            c.assume(z3.Implies(b, smt.tag(t) == smt.TAG_NODE))
            c.assume(z3.Implies(z3.And(smt.tag(t) == smt.TAG_NODE, z3.Or(*[smt.cls_of(t) == i for i in subs])), b))
            I.isinst_terms.append((t, k, b))
        return b
    I.isinst_term = isinst_term
    I.isinst_terms = []

    @reg(issubclass)
    def _issubclass(I, args, kw, star, dstar, node):
        a, b = args
        if isinstance(a, Conc) and isinstance(b, Conc):
            return Conc(issubclass(a.obj, b.obj))
        raise Unsupported("symbolic issubclass")

    @reg(type)
    def _type(I, args, kw, star, dstar, node):
        if len(args) != 1:
            raise Unsupported("type() with 3 args")
        (v,) = args
        if isinstance(v, Conc):
            return Conc(type(v.obj))
        if isinstance(v, (SymNode, SymObj)):
            return Conc(v.cls)
        static = {SymInt: int, SymBool: bool, SymStr: str, PyTuple: tuple, PyList: list, PyDict: dict}
        for sk, pk in static.items():
            if isinstance(v, sk):
                return Conc(pk)
        if isinstance(v, SymSeq):
            return Conc(tuple if v.kind == "tuple" else list)
        return SymV(fn("py_type", V, V)(I.lift(v)))

    @reg(callable)
    def _callable(I, args, kw, star, dstar, node):
        (v,) = args
        if isinstance(v, (Closure, BoundMethod)):
            return Conc(True)
        if isinstance(v, Conc):
            return Conc(callable(v.obj))
        return SymBool(fn("py_callable", V, Bool)(I.lift(v)))

    # ---- attribute builtins
    @reg(getattr)
    def _getattr(I, args, kw, star, dstar, node):
        obj, name = args[0], args[1]
        if not isinstance(name, Conc):
            if isinstance(name, SymStr) and isinstance(obj, SymV) and len(args) == 2:
                if I.op_may_raise and not I.decide(fn("has_attr", V, Str, Bool)(obj.t, name.t)):
                    raise PyRaise(SymExc(AttributeError, (name,), origin="getattr(?, ?)"))
                return SymV(fn("py_getattr", V, Str, V)(obj.t, name.t))
            raise Unsupported("getattr with symbolic name")
        try:
            return I.getattr_val(obj, name.obj)
        except PyRaise as e:
            if len(args) == 3 and e.exc.kind is not None and issubclass(e.exc.kind, AttributeError):
                return args[2]
            raise

    @reg(hasattr)
    def _hasattr(I, args, kw, star, dstar, node):
        obj, name = args
        try:
            I.getattr_val(obj, name.obj)
            return Conc(True)
        except PyRaise as e:
            if e.exc.kind is not None and issubclass(e.exc.kind, AttributeError):
                return Conc(False)
            raise

    @reg(setattr)
    def _setattr(I, args, kw, star, dstar, node):
        obj, name, val = args
        I.setattr_val(obj, name.obj, val)
        return Conc(None)

    @reg(object.__setattr__)
    def _osetattr(I, args, kw, star, dstar, node):
        obj, name, val = args
        if I.pure_depth:
            raise Unsupported("mutation inside lifted body")
        if isinstance(obj, SymNode):
            I.writes.append((obj, name.obj, val))
            if obj.mutable or name.obj not in obj.fields:
                (obj.fields if obj.mutable else obj.extra)[name.obj] = val
            else:
                obj.extra["__rebound__" + name.obj] = val
                obj.fields[name.obj] = val
            return Conc(None)
        I.setattr_val(obj, name.obj, val)
        return Conc(None)

    @reg(super)
    def _super(I, args, kw, star, dstar, node):
        if len(args) == 2 and isinstance(args[0], Conc):
            return SuperProxy(args[1], args[0].obj)
        raise Unsupported("super() form")

    @reg(object.__init__)
    def _oinit(I, args, kw, star, dstar, node):
        return Conc(None)

    # ---- containers
    @reg(tuple)
    def _tuple(I, args, kw, star, dstar, node):
        if not args:
            return PyTuple([])
        (v,) = args
        ci = I.concrete_iter(v)
        if ci is not None:
            return PyTuple(ci)
        if isinstance(v, SymSeq):
            return SymSeq(v.t, "tuple")
        return SymSeq(I.as_seq(v), "tuple")

    @reg(list)
    def _list(I, args, kw, star, dstar, node):
        if not args:
            return PyList([])
        (v,) = args
        ci = I.concrete_iter(v)
        if ci is not None:
            return PyList(ci)
        if isinstance(v, SymSeq):
            return SymList(v.t)
        if isinstance(v, tuple) and v[0] in ("values", "keys") and isinstance(v[1], SymMap):
            return SymList(v[1].vals if v[0] == "values" else v[1].keys)
        return SymList(I.as_seq(v))

    @reg(set)
    def _set(I, args, kw, star, dstar, node):
        if not args:
            return SymSet(z3.EmptySet(V))
        (v,) = args
        if isinstance(v, SymSet):
            return SymSet(v.t)
        ci = I.concrete_iter(v)
        if ci is not None:
            return I.make_set(ci)
        return SymSet(fn("set_of_seq", S, smt.SetV)(I.as_seq(v)))
    H[frozenset] = _set

    @reg(dict)
    def _dict(I, args, kw, star, dstar, node):
        if not args and dstar is None:
            return PyDict(kw)
        if len(args) == 1 and isinstance(args[0], PyDict) and not kw:
            return PyDict(args[0].d)
        if len(args) == 1 and isinstance(args[0], SymMap) and not kw:
            return SymMap(args[0].keys, args[0].vals, "dict")
        raise Unsupported("dict() form")

    try:
        from immutabledict import immutabledict

        @reg(immutabledict)
        def _imd(I, args, kw, star, dstar, node):
            if not args and dstar is not None and not kw:
                return SymMap(dstar.keys, dstar.vals, "immutabledict")
            if not args:
                return PyDict(kw)
            (v,) = args
            if isinstance(v, PyDict):
                return PyDict(v.d)
            if isinstance(v, SymMap):
                return SymMap(v.keys, v.vals, "immutabledict")
            if isinstance(v, Conc) and isinstance(v.obj, dict):
                return PyDict({k: Conc(x) for k, x in v.obj.items()})
            if isinstance(v, SymV):
                return SymMap(fn("map_keys", V, S)(v.t), fn("map_vals", V, S)(v.t), "immutabledict")
            raise Unsupported("immutabledict() form")
    except ImportError:
        pass

    @reg(zip)
    def _zip(I, args, kw, star, dstar, node):
        _no_star(star, dstar, "zip")
        return SymZip(list(args))

    @reg(enumerate)
    def _enumerate(I, args, kw, star, dstar, node):
        start = kw.get("start", args[1] if len(args) > 1 else Conc(0))
        return SymEnumerate(args[0], start.obj)

    @reg(range)
    def _range(I, args, kw, star, dstar, node):
        if all(isinstance(a, Conc) for a in args):
            return Conc(range(*[a.obj for a in args]))
        h = H.get("__range_hook__")
        if h is not None:
            return h(I, args)
        raise Unsupported("symbolic range")

    @reg(reversed)
    def _reversed(I, args, kw, star, dstar, node):
        ci = I.concrete_iter(args[0])
        if ci is not None:
            return PyList(list(reversed(ci)))
        raise Unsupported("reversed of symbolic")

    @reg(sorted)
    def _sorted(I, args, kw, star, dstar, node):
        v = args[0]
        if isinstance(v, Conc) and not kw:
            return Conc(sorted(v.obj))
        s = I.as_seq(v) if not isinstance(v, SymSet) else fn("set_items", V, S)(v.t)
        keyname = "id"
        if "key" in kw:
            raise Unsupported("sorted with key")
        return SymSeq(fn(f"sorted_{keyname}", S, S)(s), "list")

    # ---- reductions
    @reg(sum)
    def _sum(I, args, kw, star, dstar, node):
        v = args[0]
        init = args[1] if len(args) > 1 else kw.get("start", Conc(0))
        ci = I.concrete_iter(v)
        if ci is not None:
            acc = init
            for x in ci:
                acc = I.binop("add", acc, x)
            return acc
        sq = I.as_seq(v)
        i0 = I.as_int(init)
        if i0 is not None:
            t = I.int_sum_of_seq(z3.simplify(sq) if sq.decl().kind() == z3.Z3_OP_SEQ_CONCAT else sq)
            if t is not None:
                return SymInt(i0 + t)
        return fold_term(I, "add", I.lift(init), sq)

    @reg(functools.reduce)
    def _reduce(I, args, kw, star, dstar, node):
        f, v = args[0], args[1]
        opname = None
        if isinstance(f, Conc) and f.obj in OPERATOR_FUNCS_():
            opname = OPERATOR_FUNCS_()[f.obj]
        ci = I.concrete_iter(v)
        if ci is not None:
            items = list(ci)
            if len(args) > 2:
                acc = args[2]
            else:
                if not items:
                    raise PyRaise(SymExc(TypeError, (), origin="reduce of empty"))
                acc = items.pop(0)
            for x in items:
                acc = I.binop(opname, acc, x) if opname else I.call(f, [acc, x], {})
            return acc
        if opname is None:
            raise Unsupported("reduce with non-operator function over symbolic sequence")
        s = I.as_seq(v)
        if opname == "or" and len(args) > 2 and isinstance(args[2], SymSet):
            # set union fold (Collector.combine): decomposed along the sequence structure
            return SymSet(z3.SetUnion(args[2].t, I.union_of_seq(s)))
        if len(args) > 2:
            return fold_term(I, opname, I.lift(args[2]), s)
        if not I.decide(z3.Length(s) > 0):
            raise PyRaise(SymExc(TypeError, (), origin="reduce of empty"))
        val = fn(f"fold1_{opname}", S, V)(s)
        if I.op_may_raise:
            if not I.decide(fn(f"fold1ok_{opname}", S, Bool)(s)):
                raise PyRaise(SymExc(None, (), term=fn(f"fold1exc_{opname}", S, V)(s), origin=f"fold1_{opname}"))
        return SymV(val)

    def _minmax(name):
        def h(I, args, kw, star, dstar, node):
            if len(args) == 1:
                v = args[0]
                ci = I.concrete_iter(v)
                items = ci
            else:
                items = list(args)
            if items is not None:
                if all(isinstance(x, Conc) for x in items):
                    try:
                        return Conc(getattr(builtins, name)([x.obj for x in items]))
                    except Exception as e:  # noqa: BLE001
                        raise PyRaise(SymExc(type(e), (), origin=name)) from None
                if all(I.as_int(x) is not None for x in items) and items:
                    acc = I.as_int(items[0])
                    for x in items[1:]:
                        xi = I.as_int(x)
                        acc = z3.If(xi < acc, xi, acc) if name == "min" else z3.If(xi > acc, xi, acc)
                    return SymInt(acc)
                s = smt.seq_of(I.ctx, [I.lift(x) for x in items])
            else:
                s = I.as_seq(args[0])
            if not I.decide(z3.Length(s) > 0):
                raise PyRaise(SymExc(ValueError, (), origin=f"{name} of empty"))
            if I.op_may_raise:
                if not I.decide(fn(f"ok_{name}", S, Bool)(s)):
                    raise PyRaise(SymExc(None, (), term=fn(f"exc_{name}", S, V)(s), origin=name))
            return SymV(fn(f"py_{name}", S, V)(s))
        return h
    H[min] = _minmax("min")
    H[max] = _minmax("max")

    def _anyall(name):
        def h(I, args, kw, star, dstar, node):
            (v,) = args
            ci = I.concrete_iter(v)
            if ci is not None:
                for x in ci:
                    t = I.is_true(x)
                    if name == "any" and t:
                        return Conc(True)
                    if name == "all" and not t:
                        return Conc(False)
                return Conc(name == "all")
            if isinstance(v, SymSeq):
                info = I.map_info.get(v.t.get_id())
                # all(a is b for a, b in zip(s1, s2)) over equal-length sequences  <=>  s1 == s2
                if info is not None and name == "all" and len(info["bvs"]) >= 2 and z3.is_true(info["ok"]) \
                        and z3.is_true(info["keep"]):
                    body = info["val"]
                    nb = len(info["bvs"])
                    for i0 in range(nb):
                        for i1 in range(nb):
                            if i0 == i1:
                                continue
                            b0, b1 = info["bvs"][i0], info["bvs"][i1]
                            if z3.eq(body, I.ctx.bbool(b0 == b1)):
                                s0, s1 = info["seqs"][i0], info["seqs"][i1]
                                r, _ = smt.check(I.ctx, I.pcs + [z3.Length(s0) != z3.Length(s1)])
                                if r == "unsat":
                                    return SymBool(s0 == s1)
                t = fn(f"{name}_truthy", S, Bool)(v.t)
                return SymBool(t)
            raise Unsupported(f"{name} over {type(v).__name__}")
        return h
    H[any] = _anyall("any")
    H[all] = _anyall("all")

    # ---- operator module
    for f, opname in OPERATOR_FUNCS_().items():
        def mk(opname):
            def h(I, args, kw, star, dstar, node):
                a, b = args
                if opname in ("eq", "ne", "lt", "le", "gt", "ge"):
                    return I.compare(opname, a, b)
                return I.binop(opname, a, b)
            return h
        H[f] = mk(opname)

    @reg(operator.neg)
    def _neg(I, args, kw, star, dstar, node):
        import ast as _ast
        return I.unop(_ast.USub(), args[0])

    @reg(operator.not_)
    def _not(I, args, kw, star, dstar, node):
        import ast as _ast
        return I.unop(_ast.Not(), args[0])

    @reg(operator.invert)
    def _inv(I, args, kw, star, dstar, node):
        import ast as _ast
        return I.unop(_ast.Invert(), args[0])

    @reg(operator.getitem)
    def _getitem(I, args, kw, star, dstar, node):
        return I.subscript(args[0], args[1])

    # ---- no-ops / identities
    @reg(warnings.warn)
    def _warn(I, args, kw, star, dstar, node):
        return Conc(None)

    @reg(typing.cast)
    def _cast(I, args, kw, star, dstar, node):
        return args[1]

    import sys

    @reg(sys.intern)
    def _intern(I, args, kw, star, dstar, node):
        return args[0]

    @reg(print)
    def _print(I, args, kw, star, dstar, node):
        return Conc(None)

    try:
        import pytools

        @reg(pytools.product)
        def _product(I, args, kw, star, dstar, node):
            # assumed contract: left fold of * from 1 (bounded-validated)
            v = args[0]
            ci = I.concrete_iter(v)
            if ci is not None:
                acc = Conc(1)
                for x in ci:
                    acc = I.binop("mul", acc, x)
                return acc
            return fold_term(I, "mul", I.lift(Conc(1)), I.as_seq(v))
    except ImportError:
        pass


_OPF = None


def OPERATOR_FUNCS_():
    global _OPF
    if _OPF is None:
        from .interp import OPERATOR_FUNCS
        _OPF = OPERATOR_FUNCS
    return _OPF


def value_method(I, obj, name, args, kw, node):
    """Methods of engine container values."""
    if isinstance(obj, SymList) and name in ("append", "extend", "pop", "insert", "clear"):
        if I.pure_depth:
            raise Unsupported("mutation inside lifted body")
        if name == "append":
            obj.t = z3.Concat(obj.t, z3.Unit(I.lift(args[0])))
            return Conc(None)
        if name == "extend":
            obj.t = z3.Concat(obj.t, I.as_seq(args[0]))
            return Conc(None)
        if name == "clear":
            obj.t = z3.Empty(S)
            return Conc(None)
        if name == "insert" and isinstance(args[0], Conc) and args[0].obj == 0:
            obj.t = z3.Concat(z3.Unit(I.lift(args[1])), obj.t)
            return Conc(None)
        if name == "pop" and (not args or (isinstance(args[0], Conc) and args[0].obj in (0, -1))):
            if not I.decide(z3.Length(obj.t) > 0):
                raise PyRaise(SymExc(IndexError, (), origin="pop from empty list"))
            first = bool(args) and args[0].obj == 0
            el = z3.Const(I.fresh_name(node, "popped"), V)
            rest = z3.Const(I.fresh_name(node, "rest"), S)
            I.pcs.append(obj.t == (z3.Concat(z3.Unit(el), rest) if first else z3.Concat(rest, z3.Unit(el))))
            for h in getattr(I, "seq_split_hooks", ()):     # ground instances of fold axioms for the split sequence
                h(I, obj.t, el, rest, first)
            obj.t = rest
            return SymV(el)
        raise Unsupported(f"list.{name} on a list of symbolic length")
    if isinstance(obj, PyList):
        if name == "append":
            if I.pure_depth:
                raise Unsupported("mutation inside lifted body")
            obj.items.append(args[0])
            return Conc(None)
        if name == "extend":
            ci = I.concrete_iter(args[0])
            if ci is None:
                raise Unsupported("extend with symbolic")
            obj.items.extend(ci)
            return Conc(None)
        if name == "pop":
            if I.pure_depth:
                raise Unsupported("mutation inside lifted body")
            idx = args[0].obj if args else -1
            try:
                return obj.items.pop(idx)
            except IndexError:
                raise PyRaise(SymExc(IndexError, (), origin="pop")) from None
        if name == "copy":
            return PyList(obj.items)
        if name == "insert":
            obj.items.insert(args[0].obj, args[1])
            return Conc(None)
        if name == "remove":
            for i, x in enumerate(obj.items):
                if I.is_true(I.compare("eq", x, args[0])):
                    del obj.items[i]
                    return Conc(None)
            raise PyRaise(SymExc(ValueError, (), origin="remove"))
        if name == "sort" and not kw:
            if all(isinstance(x, Conc) for x in obj.items):
                try:
                    obj.items.sort(key=lambda c: c.obj)
                except TypeError:
                    raise PyRaise(SymExc(TypeError, (), origin="sort")) from None
                return Conc(None)
            raise Unsupported("sort of symbolic list")
    if isinstance(obj, (PyTuple, PyList)) and name == "index":
        for i, x in enumerate(obj.items):
            if I.is_true(I.compare("eq", x, args[0])):
                return Conc(i)
        raise PyRaise(SymExc(ValueError, (), origin="index"))
    if isinstance(obj, PyDict):
        if name == "items":
            return ("items", obj)
        if name == "values":
            return ("values", obj)
        if name == "keys":
            return ("keys", obj)
        if name == "copy":
            return PyDict(obj.d)
        if name == "get":
            k = args[0]
            default = args[1] if len(args) > 1 else Conc(None)
            if isinstance(k, Conc):
                return obj.d.get(k.obj, default)
            for kk in obj.d:
                if I.is_true(I.compare("eq", k, Conc(kk))):
                    return obj.d[kk]
            return default
        if name == "update":
            if I.pure_depth:
                raise Unsupported("mutation inside lifted body")
            src = args[0] if args else PyDict(kw)
            if isinstance(src, PyDict):
                obj.d.update(src.d)
                obj.d.update(kw)
                return Conc(None)
            raise Unsupported("update from symbolic")
        if name == "setdefault":
            k = args[0]
            if isinstance(k, Conc):
                return obj.d.setdefault(k.obj, args[1] if len(args) > 1 else Conc(None))
        if name == "pop" and isinstance(args[0], Conc):
            if args[0].obj in obj.d:
                return obj.d.pop(args[0].obj)
            if len(args) > 1:
                return args[1]
            raise PyRaise(SymExc(KeyError, (args[0],), origin="pop"))
    if isinstance(obj, SymDict):
        if name == "get":
            found, v = I.symdict_lookup(obj, args[0])
            if found:
                return v
            return args[1] if len(args) > 1 else Conc(None)
        if name == "setdefault":
            found, v = I.symdict_lookup(obj, args[0])
            if found:
                return v
            I.setitem(obj, args[0], args[1] if len(args) > 1 else Conc(None))
            return args[1] if len(args) > 1 else Conc(None)
    if isinstance(obj, SymMap):
        if name == "items":
            return ("items", obj)
        if name == "values":
            return ("values", obj)
        if name == "keys":
            return ("keys", obj)
        if name == "copy":
            return SymMap(obj.keys, obj.vals, obj.kind)
    if isinstance(obj, SymStrMap):
        if name == "get":
            s = I.as_str(args[0])
            if s is None:
                s = smt.unbox_str(I.lift(args[0]))
            if I.decide(fn("env_has", V, Str, Bool)(obj.t, s)):
                return SymV(fn("env_get", V, Str, V)(obj.t, s))
            return args[1] if len(args) > 1 else Conc(None)
    if isinstance(obj, SymSet):
        if name in ("union", "__or__"):
            t = obj.t
            for a in args:
                t = z3.SetUnion(t, I.as_set(a))
            return SymSet(t)
        if name == "add":
            if I.pure_depth:
                raise Unsupported("mutation inside lifted body")
            obj.t = z3.SetAdd(obj.t, I.lift(args[0]))
            return Conc(None)
    if isinstance(obj, SymStr) and name == "encode":
        return SymV(fn("str_encode", Str, V)(obj.t))
    if isinstance(obj, SymV) and name == "encode":
        return SymV(fn("obj_encode", V, V)(obj.t))
    h = I.builtin_handlers.get("__value_method_hook__")
    if h is not None:
        r = h(I, obj, name, args, kw)
        if r is not None:
            return r
    raise Unsupported(f"method {name} of {type(obj).__name__}")

"""PyVC symbolic interpreter: executes the AST of real Python functions over symbolic values.

Path exploration is by re-execution under a decision oracle (DFS over branch decisions),
so arbitrary mutable interpreter state needs no copying.  Anything outside the supported
subset raises `Unsupported` (the function is then *undecided*, never a verdict).
"""
from __future__ import annotations

import ast
import builtins
import dataclasses
import inspect
import operator
import types

import z3

from . import loader, smt
from .smt import S, V, Bool, Int, Str, fn
from .values import *  # noqa: F403


class _Return(Exception):
    def __init__(self, v):
        self.v = v


class _Break(Exception):
    pass


class _Continue(Exception):
    pass


class Infeasible(Exception):
    pass


BINOPS = {
    ast.Add: "add", ast.Sub: "sub", ast.Mult: "mul", ast.Div: "truediv", ast.FloorDiv: "floordiv",
    ast.Mod: "mod", ast.Pow: "pow", ast.LShift: "lshift", ast.RShift: "rshift", ast.BitOr: "or",
    ast.BitXor: "xor", ast.BitAnd: "and", ast.MatMult: "matmul",
}
CMPOPS = {ast.Eq: "eq", ast.NotEq: "ne", ast.Lt: "lt", ast.LtE: "le", ast.Gt: "gt", ast.GtE: "ge"}
PYOPS = {
    "add": operator.add, "sub": operator.sub, "mul": operator.mul, "truediv": operator.truediv,
    "floordiv": operator.floordiv, "mod": operator.mod, "pow": operator.pow,
    "lshift": operator.lshift, "rshift": operator.rshift, "or": operator.or_, "xor": operator.xor,
    "and": operator.and_, "matmul": operator.matmul,
    "eq": operator.eq, "ne": operator.ne, "lt": operator.lt, "le": operator.le,
    "gt": operator.gt, "ge": operator.ge,
}
OPERATOR_FUNCS = {
    operator.add: "add", operator.sub: "sub", operator.mul: "mul", operator.truediv: "truediv",
    operator.floordiv: "floordiv", operator.mod: "mod", operator.pow: "pow",
    operator.lshift: "lshift", operator.rshift: "rshift", operator.or_: "or",
    operator.xor: "xor", operator.and_: "and",
    operator.eq: "eq", operator.ne: "ne", operator.lt: "lt", operator.le: "le",
    operator.gt: "gt", operator.ge: "ge",
}


class Oracle:
    def __init__(self, decisions):
        self.decisions = list(decisions)
        self.pos = 0
        self.alternatives = []


class Env:
    """Lexical environment: chain of dicts, bottoming out in real module globals."""

    def __init__(self, vars=None, parent=None, globals_=None):
        self.vars = vars if vars is not None else {}
        self.parent = parent
        self.globals = globals_ if globals_ is not None else (parent.globals if parent else {})
        self.global_names = set()

    def lookup(self, name):
        e = self
        while e is not None:
            if name in e.vars:
                return e.vars[name]
            e = e.parent
        if name in self.globals:
            return Conc(self.globals[name])
        if hasattr(builtins, name):
            return Conc(getattr(builtins, name))
        raise Unsupported(f"unbound name {name}")

    def assign(self, name, val):
        self.vars[name] = val


class Interp:
    def __init__(self, ctx: smt.Ctx, class_table=None):
        self.ctx = ctx
        self.oracles: list[Oracle] = []
        self.pcs: list = []
        self.effects: list = []          # ghost event log of the current path
        self.contracts: dict = {}        # id(function) -> handler(interp, args, kwargs) -> Val
        self.specs: dict = {}            # id(function) -> SpecInfo
        self.inline_ok = lambda fn: (getattr(fn, "__module__", "") or "").startswith(("pymbolic", "contracts")) \
            or "_MODULE_SOURCE_CODE" in getattr(fn, "__globals__", {})
        self.class_table = class_table or []
        self.class_index = {c: i for i, c in enumerate(self.class_table)}
        self.occ: dict = {}              # fresh-name occurrence counters (deterministic per path)
        self.call_depth = 0
        self.spec_depth = 0
        self.max_spec_unfold = 1
        self.pure_depth = 0
        self.rlimit = 2_000_000
        self.node_fields_cache: dict = {}
        self.max_paths = 400
        self.abstract_ops = True
        self.op_may_raise = True
        self.writes: list = []           # attribute writes (obj, name, value) for frame clauses
        from .builtins_sem import install
        from .structural import install as install_structural
        self.builtin_handlers = {}
        install(self)
        install_structural(self)
        self.rewrites = []
        self.define_fuel = 2
        self.defined_apps = set()
        self.node_by_term = {}
        self.tracked = []
        self.empty_dict_symbolic = False
        self.map_stack = []
        self.ghost_log = []

    # ------------------------------------------------------------------ path machinery
    def feasible(self, extra):
        r, _ = smt.check(self.ctx, self.pcs + list(extra), rlimit=self.rlimit)
        return r != "unsat"

    def decide(self, cond) -> bool:
        if isinstance(cond, bool):
            return cond
        cond = z3.simplify(cond)
        if z3.is_true(cond):
            return True
        if z3.is_false(cond):
            return False
        if not self.oracles:
            raise Unsupported("symbolic branch outside exploration")
        o = self.oracles[-1]
        if o.pos < len(o.decisions):
            d = o.decisions[o.pos]
        else:
            ft = self.feasible([cond])
            ff = self.feasible([z3.Not(cond)])
            if ft and ff:
                d = True
                o.alternatives.append(o.decisions[:o.pos] + [False])
            elif ft:
                d = True
            elif ff:
                d = False
            else:
                raise Infeasible()
            o.decisions.append(d)
        o.pos += 1
        self.pcs.append(cond if d else z3.Not(cond))
        return d

    def assume_path(self, cond):
        """Add a fact to the current path condition (from a contract's postcondition)."""
        self.pcs.append(cond)

    def explore(self, thunk, keep_effects=False):
        """Run thunk under all feasible decision vectors; returns list of Outcome."""
        results = []
        pending = [[]]
        base_pcs = len(self.pcs)
        base_eff = len(self.effects)
        base_writes = len(self.writes)
        base_ghost = len(self.ghost_log)
        saved_occ = dict(self.occ)
        outermost = not self.oracles
        while pending:
            if len(results) > self.max_paths:
                raise Unsupported("path explosion")
            dec = pending.pop()
            o = Oracle(dec)
            if outermost:
                self.restore_tracked()
            self.oracles.append(o)
            self.occ = dict(saved_occ)
            try:
                try:
                    v = thunk()
                    out = Outcome("ret", v, self.pcs[base_pcs:])
                except PyRaise as e:
                    out = Outcome("exc", e.exc, self.pcs[base_pcs:])
                except Infeasible:
                    out = None
                except Exception as e:  # noqa: BLE001
                    if type(e).__name__ == "LoopCut":
                        out = None
                    else:
                        raise
                if out is not None:
                    out.effects = list(self.effects[base_eff:])
                    out.extra["writes"] = list(self.writes[base_writes:])
                    out.extra["ghost"] = list(self.ghost_log[base_ghost:])
                    if outermost:
                        out.extra["state"] = self.snapshot_tracked()
                    out.decisions = list(o.decisions)
                    results.append(out)
            finally:
                self.oracles.pop()
                del self.pcs[base_pcs:]
                del self.effects[base_eff:]
                del self.writes[base_writes:]
                del self.ghost_log[base_ghost:]
            pending.extend(o.alternatives)
        self.occ = saved_occ
        return results

    # ---- mutable inputs shared by the paths of an exploration are restored before every run
    def track(self, obj):
        if isinstance(obj, SymObj):
            self.tracked.append((obj, dict(obj.attrs)))
        elif isinstance(obj, SymDict):
            self.tracked.append((obj, list(obj.writes)))
        elif isinstance(obj, PyList):
            self.tracked.append((obj, list(obj.items)))
        elif isinstance(obj, PyDict):
            self.tracked.append((obj, dict(obj.d)))
        elif isinstance(obj, SymNode):
            self.tracked.append((obj, (dict(obj.fields), dict(obj.extra))))
        elif isinstance(obj, SymSet):
            self.tracked.append((obj, obj.t))

    def restore_tracked(self):
        for obj, snap in self.tracked:
            if isinstance(obj, SymObj):
                obj.attrs = dict(snap)
            elif isinstance(obj, SymDict):
                obj.writes = list(snap)
            elif isinstance(obj, PyList):
                obj.items = list(snap)
            elif isinstance(obj, PyDict):
                obj.d = dict(snap)
            elif isinstance(obj, SymNode):
                obj.fields = dict(snap[0])
                obj.extra = dict(snap[1])
            elif isinstance(obj, SymSet):
                obj.t = snap

    def apply_state(self, state):
        for obj, snap in state or []:
            if isinstance(obj, SymObj):
                obj.attrs = dict(snap)
            elif isinstance(obj, SymDict):
                obj.writes = list(snap)
            elif isinstance(obj, PyList):
                obj.items = list(snap)
            elif isinstance(obj, PyDict):
                obj.d = dict(snap)
            elif isinstance(obj, SymNode):
                obj.fields = dict(snap[0])
                obj.extra = dict(snap[1])
            elif isinstance(obj, SymSet):
                obj.t = snap

    def snapshot_tracked(self):
        out = []
        for obj, _ in self.tracked:
            if isinstance(obj, SymObj):
                out.append((obj, dict(obj.attrs)))
            elif isinstance(obj, SymDict):
                out.append((obj, list(obj.writes)))
            elif isinstance(obj, PyList):
                out.append((obj, list(obj.items)))
            elif isinstance(obj, PyDict):
                out.append((obj, dict(obj.d)))
            elif isinstance(obj, SymNode):
                out.append((obj, (dict(obj.fields), dict(obj.extra))))
            elif isinstance(obj, SymSet):
                out.append((obj, obj.t))
        return out

    def assume_path_bool(self, thunk):
        """Add the truth of a boolean contract expression to the *current path* (not a global axiom)."""
        outs = self.explore(thunk)
        disj = []
        for po in outs:
            if po.kind != "ret":
                continue
            t = self.truth(po.value)
            if t is False:
                continue
            parts = list(po.pcs) + ([] if t is True else [t])
            disj.append(z3.And(*parts) if parts else z3.BoolVal(True))
        f = z3.Or(*disj) if disj else z3.BoolVal(False)
        self.pcs.append(f)
        if not self.feasible([]):
            raise Infeasible()

    def fresh_name(self, node, prefix):
        key = (prefix, getattr(node, "lineno", 0), getattr(node, "col_offset", 0), id(node) if node is None else 0)
        n = self.occ.get(key, 0)
        self.occ[key] = n + 1
        return f"{prefix}@{key[1]}:{key[2]}#{n}"

    # ------------------------------------------------------------------ lifting
    def lift(self, v) -> z3.ExprRef:
        """Value -> term of sort V."""
        c = self.ctx
        if isinstance(v, SymV):
            return v.t
        if isinstance(v, SymNode):
            if v.mutable:
                raise Unsupported("node under construction escapes")
            return v.t
        if isinstance(v, Conc):
            o = v.obj
            if o is None:
                return smt.NoneV
            if o is NotImplemented:
                return smt.NotImplV
            if isinstance(o, bool):
                return c.bbool(z3.BoolVal(o))
            if isinstance(o, int):
                return c.bint(z3.IntVal(o))
            if isinstance(o, str):
                return c.bstr(z3.StringVal(o))
            if isinstance(o, tuple):
                return c.btup(smt.seq_of(c, [self.lift(Conc(x)) for x in o]))
            if isinstance(o, list):
                return c.blist(smt.seq_of(c, [self.lift(Conc(x)) for x in o]))
            import fractions
            if isinstance(o, fractions.Fraction):
                return c.breal(z3.RealVal(str(o)))
            if isinstance(o, float):
                k = ("float", repr(o))
                if k not in c.consts:
                    c.consts[k] = z3.Const(f"float:{o!r}", V)
                    c.assume(smt.tag(c.consts[k]) == smt.TAG_FLOAT)
                return c.consts[k]
            return c.obj_const(o)
        if isinstance(v, SymInt):
            return c.bint(v.t)
        if isinstance(v, SymBool):
            return c.bbool(v.t)
        if isinstance(v, SymStr):
            return c.bstr(v.t)
        if isinstance(v, SymReal):
            return c.breal(v.t)
        if isinstance(v, SymBV):
            return c.bint(z3.BV2Int(v.t))
        if isinstance(v, SymSeq):
            return c.btup(v.t) if v.kind == "tuple" else c.blist(v.t)
        if isinstance(v, PyTuple):
            return c.btup(smt.seq_of(c, [self.lift(x) for x in v.items]))
        if isinstance(v, PyList):
            return c.blist(smt.seq_of(c, [self.lift(x) for x in v.items]))
        if isinstance(v, SymMap):
            f = fn("box_map", S, S, V)
            t = f(v.keys, v.vals)
            c.assume(fn("map_keys", V, S)(t) == v.keys)
            c.assume(fn("map_vals", V, S)(t) == v.vals)
            c.assume(smt.tag(t) == smt.TAG_DICT)
            c.assume(smt.truthy(t) == (z3.Length(v.keys) != 0))
            return t
        if isinstance(v, SymStrMap):
            return v.t
        if isinstance(v, SymSet):
            b = fn("box_set", smt.SetV, V)(v.t)
            c.assume(fn("unbox_set", V, smt.SetV)(b) == v.t)
            c.assume(smt.tag(b) == smt.TAG_SET)
            return b
        if isinstance(v, SymObj):
            if v.t is None:
                v.t = c.fresh("obj_" + v.cls.__name__, V)
            return v.t
        if isinstance(v, PyDict):
            keys = [self.lift(Conc(k)) for k in v.d]
            vals = [self.lift(x) for x in v.d.values()]
            return self.lift(SymMap(smt.seq_of(c, keys), smt.seq_of(c, vals)))
        if isinstance(v, (Closure, BoundMethod)):
            raise Unsupported("function value used as data")
        raise Unsupported(f"cannot lift {type(v).__name__}")

    def as_seq(self, v):
        """Value -> z3 Seq(V) of the items iteration yields (None if not statically a sequence)."""
        c = self.ctx
        if isinstance(v, SymSeq):
            return v.t
        if isinstance(v, (PyTuple, PyList)):
            return smt.seq_of(c, [self.lift(x) for x in v.items])
        if isinstance(v, Conc) and isinstance(v.obj, (tuple, list)):
            return smt.seq_of(c, [self.lift(Conc(x)) for x in v.obj])
        if isinstance(v, SymV):
            return fn("iter_seq", V, S)(v.t)
        if isinstance(v, SymMap):
            return v.keys
        if isinstance(v, tuple) and len(v) == 2 and isinstance(v[1], SymMap):
            if v[0] == "keys":
                return v[1].keys
            if v[0] == "values":
                return v[1].vals
        raise Unsupported(f"not iterable symbolically: {type(v).__name__}")

    def truth(self, v):
        """Truthiness of a value: python bool or z3 Bool."""
        if isinstance(v, Conc):
            try:
                return bool(v.obj)
            except Exception as e:  # noqa: BLE001
                raise PyRaise(SymExc(type(e), (), origin="bool")) from None
        if isinstance(v, SymBool):
            return v.t
        if isinstance(v, SymInt):
            return v.t != 0
        if isinstance(v, SymReal):
            return v.t != 0
        if isinstance(v, SymBV):
            return v.t != 0
        if isinstance(v, (PyTuple, PyList)):
            return len(v.items) != 0
        if isinstance(v, PyDict):
            return len(v.d) != 0
        if isinstance(v, SymSeq):
            return z3.Length(v.t) != 0
        if isinstance(v, SymMap):
            return z3.Length(v.keys) != 0
        if isinstance(v, SymStr):
            return z3.Length(v.t) != 0
        if isinstance(v, SymNode):
            return self.node_truth(v)
        if isinstance(v, (SymObj, Closure, BoundMethod)):
            return True
        if isinstance(v, SymDict):
            if v.base is None and not v.writes:
                return False
            if v.writes:
                return True
            return fn("dict_nonempty", V, Bool)(v.base)
        if isinstance(v, SymV):
            h = self.builtin_handlers.get("__truth_hook__")
            if h is not None:
                r = h(self, v)
                if r is not None:
                    return r
            return smt.truthy(v.t)
        if isinstance(v, SymSet):
            return v.t != z3.EmptySet(V)
        raise Unsupported(f"truth of {type(v).__name__}")

    def node_truth(self, n: SymNode):
        b = inspect.getattr_static(n.cls, "__bool__", None)
        if b is None:
            return True
        r = self.call_function(Conc(b), [n], {})
        return self.truth(r)

    def is_true(self, v) -> bool:
        t = self.truth(v)
        if isinstance(t, bool):
            return t
        return self.decide(t)

    # ------------------------------------------------------------------ nodes
    def field_kinds(self, cls):
        fk = self.node_fields_cache.get(cls)
        if fk is None:
            fk = loader.field_kinds(cls)
            self.node_fields_cache[cls] = fk
        return fk

    def cls_id(self, cls):
        if cls not in self.class_index:
            self.class_index[cls] = len(self.class_table)
            self.class_table.append(cls)
        return self.class_index[cls]

    def sym_node(self, cls, t, known_fields=None, assume_facts=True):
        """Node of known class `cls` identified by V-term t; fields are projections of t."""
        c = self.ctx
        fields = {}
        for name, kind in self.field_kinds(cls).items():
            if known_fields and name in known_fields:
                fields[name] = known_fields[name]
                continue
            fields[name] = self.project(cls, name, kind, t)
        if assume_facts:
            c.assume(smt.tag(t) == smt.TAG_NODE)
            c.assume(smt.cls_of(t) == self.cls_id(cls))
            c.assume(fn("alloc_id", V, Int)(t) <= 0)
        n = SymNode(cls, t, fields)
        if assume_facts:
            self.node_by_term[t.get_id()] = n
        return n

    def project(self, cls, name, kind, t):
        base = self.field_owner(cls, name).__name__
        if kind == "v":
            return SymV(fn(f"fld_{base}_{name}", V, V)(t))
        if kind == "seq":
            return SymSeq(fn(f"fld_{base}_{name}", V, S)(t), "tuple")
        if kind == "str":
            return SymStr(fn(f"fld_{base}_{name}", V, Str)(t))
        if kind == "map":
            ks, vs = fn(f"fld_{base}_{name}_keys", V, S)(t), fn(f"fld_{base}_{name}_vals", V, S)(t)
            self.ctx.assume(z3.Length(ks) == z3.Length(vs))
            return SymMap(ks, vs, "immutabledict")
        raise Unsupported(kind)

    def field_owner(self, cls, name):
        owner = cls
        if not dataclasses.is_dataclass(cls) or not any(f.name == name for f in dataclasses.fields(cls)):
            for k in cls.__mro__:
                if "init_arg_names" in k.__dict__ and name in (k.__dict__["init_arg_names"] if isinstance(k.__dict__["init_arg_names"], tuple) else ()):
                    owner = k
            return owner
        for k in cls.__mro__:
            if dataclasses.is_dataclass(k) and any(f.name == name for f in dataclasses.fields(k)):
                owner = k
        return owner

    def coerce_field(self, kind, val):
        """Bring a value into the representation of a field kind."""
        if kind == "v":
            return val
        if kind == "seq":
            if isinstance(val, (SymSeq, PyTuple)):
                return val
            if isinstance(val, PyList):
                return val
            if isinstance(val, Conc) and isinstance(val.obj, tuple):
                return PyTuple([Conc(x) for x in val.obj])
            if isinstance(val, SymV):
                return SymSeq(smt.unbox_tup(val.t), "tuple")
            raise Unsupported(f"seq field from {type(val).__name__}")
        if kind == "str":
            if isinstance(val, SymStr):
                return val
            if isinstance(val, Conc) and isinstance(val.obj, str):
                return val
            if isinstance(val, SymV):
                return SymStr(smt.unbox_str(val.t))
            raise Unsupported(f"str field from {type(val).__name__}")
        if kind == "map":
            if isinstance(val, (SymMap, PyDict)):
                return val
            if isinstance(val, Conc) and isinstance(val.obj, dict):
                return PyDict({k: Conc(x) for k, x in val.obj.items()})
            if isinstance(val, SymV):
                return SymMap(fn("map_keys", V, S)(val.t), fn("map_vals", V, S)(val.t))
            raise Unsupported(f"map field from {type(val).__name__}")
        raise Unsupported(kind)

    def construct_node(self, cls, args, kwargs, node=None):
        """Symbolic `cls(*args, **kwargs)` for an expression dataclass (runs __post_init__)."""
        flds = dataclasses.fields(cls)
        kinds = self.field_kinds(cls)
        vals = {}
        if len(args) > len(flds):
            raise PyRaise(SymExc(TypeError, (), origin=f"{cls.__name__}() arity"))
        for f, a in zip(flds, args):
            vals[f.name] = a
        for k, a in kwargs.items():
            if k in vals or k not in kinds:
                raise PyRaise(SymExc(TypeError, (), origin=f"{cls.__name__}() kw {k}"))
            vals[k] = a
        for f in flds:
            if f.name not in vals:
                if f.default is not dataclasses.MISSING:
                    vals[f.name] = Conc(f.default)
                elif f.default_factory is not dataclasses.MISSING:
                    vals[f.name] = Conc(f.default_factory())
                else:
                    raise PyRaise(SymExc(TypeError, (), origin=f"{cls.__name__}() missing {f.name}"))
        n = SymNode(cls, None, vals, mutable=True)
        pi = inspect.getattr_static(cls, "__post_init__", None)
        if pi is not None:
            self.call_function(Conc(pi), [n], {})
        return self.freeze_node(n, node)

    def freeze_node(self, n: SymNode, node=None):
        c = self.ctx
        cls = n.cls
        kinds = self.field_kinds(cls)
        terms = []
        sorts = []
        fvals = {}
        for name, kind in kinds.items():
            v = self.coerce_field(kind, n.fields[name])
            fvals[name] = v
            if kind == "v":
                terms.append(self.lift(v)); sorts.append(V)
            elif kind == "seq":
                terms.append(self.as_seq(v)); sorts.append(S)
            elif kind == "str":
                terms.append(v.t if isinstance(v, SymStr) else z3.StringVal(v.obj)); sorts.append(Str)
            elif kind == "map":
                if isinstance(v, PyDict):
                    v = SymMap(smt.seq_of(c, [self.lift(Conc(k)) for k in v.d]),
                               smt.seq_of(c, [self.lift(x) for x in v.d.values()]))
                    fvals[name] = v
                terms += [v.keys, v.vals]; sorts += [S, S]
        alloc = z3.Const(self.fresh_name(node, f"new_{cls.__name__}"), Int)
        mk = fn(f"mk_{cls.__name__}", *sorts, Int, V)
        t = mk(*terms, alloc)
        c.assume(smt.tag(t) == smt.TAG_NODE)
        c.assume(smt.cls_of(t) == self.cls_id(cls))
        c.assume(fn("alloc_id", V, Int)(t) == alloc)
        c.assume(alloc > 0)
        # projections
        i = 0
        for name, kind in kinds.items():
            p = self.project(cls, name, kind, t)
            if kind == "map":
                c.assume(p.keys == terms[i]); c.assume(p.vals == terms[i + 1]); i += 2
            else:
                c.assume(p.t == terms[i]); i += 1
        out = SymNode(cls, t, fvals)
        self.new_objects.append(out)
        self.node_by_term[t.get_id()] = out
        return out

    new_objects: list = []

    # ------------------------------------------------------------------ attribute access
    def getattr_val(self, obj, name, node=None):
        if isinstance(obj, SymNode):
            if name in obj.fields:
                return obj.fields[name]
            if name == "__class__":
                return Conc(obj.cls)
            if name in obj.extra:
                return obj.extra[name]
            if name == "_deprecation_warnings_issued":
                return SymSet(z3.EmptySet(V))   # A-WARN: deprecation bookkeeping ignored (always "not yet warned")
            return self.class_attr(obj, obj.cls, name)
        if isinstance(obj, SymObj):
            if name in obj.attrs:
                return obj.attrs[name]
            if name == "__class__":
                return Conc(obj.cls)
            if name == "rec" and obj.rec_contract is not None:
                return BoundMethod(obj, obj.rec_contract, "rec")
            sh = obj.ghost.get("symbolic_handlers")
            if sh is not None:
                r = sh(self, obj, name)
                if r is not None:
                    return r
            return self.class_attr(obj, obj.cls, name)
        if isinstance(obj, SuperProxy):
            mro = type.mro(obj.self_val.cls) if isinstance(obj.self_val.cls, type) else obj.self_val.cls.__mro__
            idx = mro.index(obj.after)
            for k in mro[idx + 1:]:
                if name in k.__dict__:
                    return self.bind_class_attr(obj.self_val, k, k.__dict__[name], name)
            raise PyRaise(SymExc(AttributeError, (name,), origin="super"))
        if isinstance(obj, Conc):
            o = obj.obj
            try:
                a = getattr(o, name)
            except AttributeError:
                raise PyRaise(SymExc(AttributeError, (name,), origin=f"getattr({type(o).__name__},{name})")) from None
            return Conc(a)
        pytype = {SymInt: int, SymBool: bool, SymStr: str, PyTuple: tuple, PyList: list, PyDict: dict,
                  SymMap: dict, SymStrMap: dict, SymSet: set, SymReal: float, SymDict: dict}.get(type(obj))
        if isinstance(obj, SymSeq):
            pytype = tuple if obj.kind == "tuple" else list
        if pytype is not None and not hasattr(pytype, name):
            raise PyRaise(SymExc(AttributeError, (name,), origin=f"{pytype.__name__}.{name}"))
        if isinstance(obj, (PyList, PyTuple, PyDict, SymSeq, SymMap, SymStrMap, SymSet, SymStr, SymInt, SymBool, SymDict)):
            return BoundMethod(obj, ("valmethod", name), name)
        if isinstance(obj, SymV):
            h = self.builtin_handlers.get("__getattr_hook__")
            if h is not None:
                r = h(self, obj, name)
                if r is not None:
                    return r
            t = fn("py_getattr", V, Str, V)(obj.t, z3.StringVal(name))
            ok = fn("has_attr", V, Str, Bool)(obj.t, z3.StringVal(name))
            if self.decide(ok):
                return SymV(t)
            raise PyRaise(SymExc(AttributeError, (name,), origin=f"getattr(?, {name})"))
        if isinstance(obj, Closure):
            raise PyRaise(SymExc(AttributeError, (name,), origin="closure attr"))
        raise Unsupported(f"getattr on {type(obj).__name__}.{name}")

    def class_attr(self, selfv, cls, name):
        for k in cls.__mro__:
            if name in k.__dict__:
                return self.bind_class_attr(selfv, k, k.__dict__[name], name)
        raise PyRaise(SymExc(AttributeError, (name,), origin=f"{cls.__name__}.{name}"))

    def bind_class_attr(self, selfv, owner, raw, name):
        if isinstance(raw, types.FunctionType):
            return BoundMethod(selfv, raw, name, owner)
        if isinstance(raw, property):
            return self.call_function(Conc(raw.fget), [selfv], {})
        if isinstance(raw, staticmethod):
            return Conc(raw.__func__)
        if isinstance(raw, classmethod):
            return BoundMethod(Conc(selfv.cls), raw.__func__, name, owner)
        if hasattr(raw, "__get__") and not isinstance(raw, (type,)) and type(raw).__name__ in (
                "_classproperty",):
            return Conc(raw.fget(selfv.cls))
        return Conc(raw)

    def setattr_val(self, obj, name, val):
        if self.pure_depth:
            raise Unsupported("mutation inside lifted body")
        if isinstance(obj, SymNode):
            self.writes.append((obj, name, val))
            if obj.mutable:
                obj.fields[name] = val
                return
            if name in obj.fields and getattr(obj.cls, "__dataclass_params__", None) is not None \
                    and obj.cls.__dataclass_params__.frozen:
                raise PyRaise(SymExc(dataclasses.FrozenInstanceError, (name,), origin="frozen"))
            obj.extra[name] = val
            return
        if isinstance(obj, SymObj):
            self.writes.append((obj, name, val))
            obj.attrs[name] = val
            return
        raise Unsupported(f"setattr on {type(obj).__name__}")

    # ------------------------------------------------------------------ operators
    def binop(self, op, a, b, node=None):
        # concrete
        if isinstance(a, Conc) and isinstance(b, Conc) and not isinstance(a.obj, types.FunctionType):
            try:
                return Conc(PYOPS[op](a.obj, b.obj))
            except Exception as e:  # noqa: BLE001
                raise PyRaise(SymExc(type(e), (), origin=f"concrete {op}")) from None
        if isinstance(a, SymBV) or isinstance(b, SymBV):
            r = self.bv_binop(op, a, b)
            if r is not None:
                return r
        ia, ib = self.as_int(a), self.as_int(b)
        if ia is not None and ib is not None:
            r = self.int_binop(op, ia, ib)
            if r is not None:
                return r
        if isinstance(a, SymReal) or isinstance(b, SymReal):
            ra, rb = self.as_real(a), self.as_real(b)
            if ra is not None and rb is not None:
                r = self.real_binop(op, ra, rb)
                if r is not None:
                    return r
        # sequences
        if op == "add":
            sa, sb = self.static_seq(a), self.static_seq(b)
            if sa is not None and sb is not None and sa[1] == sb[1]:
                if isinstance(a, (PyTuple, PyList)) and isinstance(b, (PyTuple, PyList)):
                    return type(a)(a.items + b.items)
                return SymList(z3.Concat(sa[0], sb[0])) if sa[1] == "list" else SymSeq(z3.Concat(sa[0], sb[0]), sa[1])
        if op in ("or", "and", "sub") and (isinstance(a, SymSet) or isinstance(b, SymSet)):
            sa, sb = self.as_set(a), self.as_set(b)
            return SymSet({"or": z3.SetUnion, "and": z3.SetIntersect, "sub": z3.SetDifference}[op](sa, sb))
        h = self.builtin_handlers.get("__binop_hook__")
        if h is not None and not isinstance(a, SymNode):
            # the left operand's own method is tried first (a hook may know the class of an opaque left operand)
            r = h(self, op, a, b)
            if r is not None:
                return r
        if isinstance(a, SymNode) or isinstance(b, SymNode):
            r = self.node_binop(op, a, b)
            if r is not NotImplemented:
                return r
        if h is not None and isinstance(a, SymNode):
            r = h(self, op, a, b)
            if r is not None:
                return r
        ta, tb = self.lift(a), self.lift(b)
        val = fn(f"py_{op}", V, V, V)(ta, tb)
        if self.op_may_raise:
            ok = fn(f"ok_{op}", V, V, Bool)(ta, tb)
            if not self.decide(ok):
                raise PyRaise(SymExc(None, (), term=fn(f"exc_{op}", V, V, V)(ta, tb), origin=f"py_{op}"))
        return SymV(val)

    REFLECTED = {"add": "__radd__", "sub": "__rsub__", "mul": "__rmul__", "truediv": "__rtruediv__",
                 "floordiv": "__rfloordiv__", "mod": "__rmod__", "pow": "__rpow__",
                 "lshift": "__rlshift__", "rshift": "__rrshift__", "or": "__ror__", "xor": "__rxor__",
                 "and": "__rand__"}
    DIRECT = {"add": "__add__", "sub": "__sub__", "mul": "__mul__", "truediv": "__truediv__",
              "floordiv": "__floordiv__", "mod": "__mod__", "pow": "__pow__",
              "lshift": "__lshift__", "rshift": "__rshift__", "or": "__or__", "xor": "__xor__",
              "and": "__and__", "eq": "__eq__", "ne": "__ne__", "lt": "__lt__", "le": "__le__",
              "gt": "__gt__", "ge": "__ge__"}

    def node_binop(self, op, a, b):
        """Operator dispatch when an operand is a node of known class: run the real dunder."""
        if op not in self.DIRECT:
            return NotImplemented
        if isinstance(a, SymNode):
            m = inspect.getattr_static(a.cls, self.DIRECT[op], None)
            if isinstance(m, types.FunctionType):
                r = self.call_function(Conc(m), [a, b], {})
                if not (isinstance(r, Conc) and r.obj is NotImplemented):
                    return r
        if isinstance(b, SymNode) and op in self.REFLECTED:
            m = inspect.getattr_static(b.cls, self.REFLECTED[op], None)
            if isinstance(m, types.FunctionType):
                r = self.call_function(Conc(m), [b, a], {})
                if not (isinstance(r, Conc) and r.obj is NotImplemented):
                    return r
        return NotImplemented

    def bv_binop(self, op, a, b):
        """Bit-vector arithmetic for bitmaps of a stated width (non-negative Python ints < 2**W)."""
        w = (a if isinstance(a, SymBV) else b).t.size()

        def tobv(x):
            if isinstance(x, SymBV):
                return x.t
            if isinstance(x, Conc) and isinstance(x.obj, int) and not isinstance(x.obj, bool):
                if 0 <= x.obj < 2 ** w:
                    return z3.BitVecVal(x.obj, w)
                return None
            if isinstance(x, Conc) and isinstance(x.obj, bool):
                return z3.BitVecVal(int(x.obj), w)
            return None
        ta, tb = tobv(a), tobv(b)
        if ta is None or tb is None:
            return None
        if op == "and":
            return SymBV(ta & tb)
        if op == "or":
            return SymBV(ta | tb)
        if op == "xor":
            return SymBV(ta ^ tb)
        if op == "rshift":
            return SymBV(z3.LShR(ta, tb))
        if op == "sub":
            # Python ints do not wrap: the subtraction must stay non-negative (checked as a path fact)
            if not self.decide(z3.UGE(ta, tb)):
                raise Unsupported("bit-vector subtraction below zero (outside the modelled range)")
            return SymBV(ta - tb)
        if op == "add":
            if not self.decide(z3.BVAddNoOverflow(ta, tb, False)):
                raise Unsupported("bit-vector addition beyond the modelled width")
            return SymBV(ta + tb)
        if op == "lshift":
            return None
        if op == "mod":
            if not self.decide(tb != 0):
                raise PyRaise(SymExc(ZeroDivisionError, (), origin="bv mod"))
            return SymBV(z3.URem(ta, tb))
        if op == "floordiv":
            if not self.decide(tb != 0):
                raise PyRaise(SymExc(ZeroDivisionError, (), origin="bv div"))
            return SymBV(z3.UDiv(ta, tb))
        if op == "mul":
            if not self.decide(z3.BVMulNoOverflow(ta, tb, False)):
                raise Unsupported("bit-vector product beyond the modelled width")
            return SymBV(ta * tb)
        if op in ("eq", "ne"):
            return SymBool(ta == tb if op == "eq" else ta != tb)
        if op in ("lt", "le", "gt", "ge"):
            return SymBool({"lt": z3.ULT, "le": z3.ULE, "gt": z3.UGT, "ge": z3.UGE}[op](ta, tb))
        return None

    def as_real(self, v):
        if isinstance(v, SymReal):
            return v.t
        i = self.as_int(v)
        if i is not None:
            return z3.ToReal(i)
        if isinstance(v, Conc):
            import fractions
            if isinstance(v.obj, fractions.Fraction):
                return z3.RealVal(str(v.obj))
            if isinstance(v.obj, float) and v.obj == v.obj and abs(v.obj) != float("inf"):
                return z3.RealVal(str(fractions.Fraction(v.obj)))
        return None

    def real_binop(self, op, a, b):
        if op == "add":
            return SymReal(a + b)
        if op == "sub":
            return SymReal(a - b)
        if op == "mul":
            return SymReal(a * b)
        if op == "truediv":
            if not self.decide(b != 0):
                raise PyRaise(SymExc(ZeroDivisionError, (), origin="real /"))
            return SymReal(a / b)
        if op in ("eq", "ne", "lt", "le", "gt", "ge"):
            return SymBool({"eq": a == b, "ne": a != b, "lt": a < b, "le": a <= b, "gt": a > b, "ge": a >= b}[op])
        return None

    def as_int(self, v):
        if isinstance(v, SymInt):
            return v.t
        if isinstance(v, SymBV):
            return z3.BV2Int(v.t)
        if isinstance(v, Conc) and isinstance(v.obj, int) and not isinstance(v.obj, bool):
            return z3.IntVal(v.obj)
        if isinstance(v, Conc) and isinstance(v.obj, bool):
            return z3.IntVal(int(v.obj))
        return None

    def static_seq(self, v):
        if isinstance(v, SymSeq):
            return v.t, v.kind
        if isinstance(v, PyTuple):
            return self.as_seq(v), "tuple"
        if isinstance(v, PyList):
            return self.as_seq(v), "list"
        if isinstance(v, Conc) and isinstance(v.obj, tuple):
            return self.as_seq(v), "tuple"
        if isinstance(v, Conc) and isinstance(v.obj, list):
            return self.as_seq(v), "list"
        return None

    def int_binop(self, op, a, b):
        if op == "add":
            return SymInt(a + b)
        if op == "sub":
            return SymInt(a - b)
        if op == "mul":
            return SymInt(a * b)
        if op in ("floordiv", "mod"):
            if not self.decide(b != 0):
                raise PyRaise(SymExc(ZeroDivisionError, (), origin=op))
            # python floor semantics from z3's euclidean div/mod
            q = z3.If(b > 0, a / b, -((-a) / (-b)) if False else z3.If(a % b == 0, a / b, a / b))
            # z3: a = b*(a div b) + (a mod b), 0 <= a mod b < |b|.  python: remainder has sign of b.
            zq, zr = a / b, a % b
            pq = z3.If(z3.And(b < 0, zr != 0), zq - 1, zq)
            pr = z3.If(z3.And(b < 0, zr != 0), zr + b, zr)
            return SymInt(pq if op == "floordiv" else pr)
        if op in ("eq", "ne", "lt", "le", "gt", "ge"):
            return SymBool({"eq": a == b, "ne": a != b, "lt": a < b, "le": a <= b,
                            "gt": a > b, "ge": a >= b}[op])
        if op == "and" and z3.is_int_value(b) and b.as_long() == 1:
            return SymInt(a % 2)
        if op == "and" and z3.is_int_value(a) and a.as_long() == 1:
            return SymInt(b % 2)
        if op in ("and", "or", "xor"):
            t = fn(f"int_{op}", Int, Int, Int)(a, b)
            return SymInt(t)
        if op == "pow":
            if z3.is_int_value(b) and 0 <= b.as_long() <= 4:
                r = z3.IntVal(1)
                for _ in range(b.as_long()):
                    r = r * a
                return SymInt(r)
            return None
        if op == "truediv":
            return None
        if op in ("lshift", "rshift"):
            if z3.is_int_value(b) and 0 <= b.as_long() <= 62:
                k = 2 ** b.as_long()
                return SymInt(a * k) if op == "lshift" else self.int_binop("floordiv", a, z3.IntVal(k))
            return None
        return None

    def unop(self, op, a):
        if isinstance(op, ast.Not):
            t = self.truth(a)
            if isinstance(t, bool):
                return Conc(not t)
            return SymBool(z3.Not(t))
        name = {ast.USub: "neg", ast.UAdd: "pos", ast.Invert: "invert"}[type(op)]
        if isinstance(a, Conc):
            try:
                return Conc({"neg": operator.neg, "pos": operator.pos, "invert": operator.invert}[name](a.obj))
            except Exception as e:  # noqa: BLE001
                raise PyRaise(SymExc(type(e), (), origin=name)) from None
        if isinstance(a, SymReal):
            if name == "neg":
                return SymReal(-a.t)
            if name == "pos":
                return a
        if isinstance(a, SymInt):
            if name == "neg":
                return SymInt(-a.t)
            if name == "pos":
                return a
            if name == "invert":
                return SymInt(-a.t - 1)
        if isinstance(a, SymNode):
            m = inspect.getattr_static(a.cls, {"neg": "__neg__", "pos": "__pos__", "invert": "__invert__"}[name], None)
            if isinstance(m, types.FunctionType):
                return self.call_function(Conc(m), [a], {})
        h = self.builtin_handlers.get("__unop_hook__")
        if h is not None:
            r = h(self, name, a)
            if r is not None:
                return r
        ta = self.lift(a)
        if self.op_may_raise:
            if not self.decide(fn(f"ok_{name}", V, Bool)(ta)):
                raise PyRaise(SymExc(None, (), term=fn(f"exc_{name}", V, V)(ta), origin=f"py_{name}"))
        return SymV(fn(f"py_{name}", V, V)(ta))

    def identical(self, a, b):
        """`a is b` -> python bool or z3 Bool."""
        if isinstance(a, Conc) and isinstance(b, Conc):
            return a.obj is b.obj or (type(a.obj) in (int, str, bool) and type(a.obj) is type(b.obj) and a.obj == b.obj)
        for x, y in ((a, b), (b, a)):
            if isinstance(x, (PyList, PyDict, SymObj, Closure, BoundMethod, NativeHandler, SymDict)):
                return x is y
        if isinstance(a, Conc) and a.obj is None and isinstance(b, (SymInt, SymBool, SymStr, SymSeq, PyTuple, SymNode, SymMap)):
            return False
        if isinstance(b, Conc) and b.obj is None and isinstance(a, (SymInt, SymBool, SymStr, SymSeq, PyTuple, SymNode, SymMap)):
            return False
        return self.lift(a) == self.lift(b)

    def compare(self, op, a, b, node=None):
        if op == "is":
            r = self.identical(a, b)
            return Conc(r) if isinstance(r, bool) else SymBool(r)
        if op == "isnot":
            r = self.identical(a, b)
            return Conc(not r) if isinstance(r, bool) else SymBool(z3.Not(r))
        if op in ("in", "notin"):
            r = self.contains(b, a)
            if op == "notin":
                if isinstance(r, Conc):
                    return Conc(not r.obj)
                return SymBool(z3.Not(self.truth(r))) if not isinstance(self.truth(r), bool) else Conc(not self.truth(r))
            return r
        if isinstance(a, Conc) and isinstance(b, Conc):
            try:
                return Conc(PYOPS[op](a.obj, b.obj))
            except Exception as e:  # noqa: BLE001
                raise PyRaise(SymExc(type(e), (), origin=f"concrete {op}")) from None
        if isinstance(a, SymBV) or isinstance(b, SymBV):
            r = self.bv_binop(op, a, b)
            if r is not None:
                return r
        if op in ("eq", "ne"):
            # a number never equals a tuple, a string or None (both __eq__ return NotImplemented, identity decides)
            for u, v in ((a, b), (b, a)):
                if isinstance(u, (SymInt, SymReal, SymBool)) and ((isinstance(v, Conc) and isinstance(v.obj, (tuple, str, type(None), list)))
                                                                  or isinstance(v, (PyTuple, PyList, SymSeq, SymStr))):
                    return Conc(op == "ne")
        ia, ib = self.as_int(a), self.as_int(b)
        if ia is not None and ib is not None:
            return self.int_binop(op, ia, ib)
        if isinstance(a, SymReal) or isinstance(b, SymReal):
            ra, rb = self.as_real(a), self.as_real(b)
            if ra is not None and rb is not None:
                r = self.real_binop(op, ra, rb)
                if r is not None:
                    return r
        if isinstance(a, (SymStr,)) or isinstance(b, SymStr):
            sa, sb = self.as_str(a), self.as_str(b)
            if sa is not None and sb is not None and op in ("eq", "ne"):
                return SymBool(sa == sb if op == "eq" else sa != sb)
        h = self.builtin_handlers.get("__cmp_contract__")       # assumed contract of __eq__/__ne__ on nodes, when installed
        if h is not None:
            r = h(self, op, a, b)
            if r is not None:
                return r
        if op in ("eq", "ne"):
            r = self.structural_eq(a, b)
            if r is not None:
                if isinstance(r, bool):
                    return Conc(r if op == "eq" else not r)
                return SymBool(r if op == "eq" else z3.Not(r))
        if isinstance(a, SymNode) or isinstance(b, SymNode):
            r = self.node_binop(op, a, b)
            if r is not NotImplemented:
                return r
        h = self.builtin_handlers.get("__cmp_hook__")
        if h is not None:
            r = h(self, op, a, b)
            if r is not None:
                return r
        ta, tb = self.lift(a), self.lift(b)
        if self.op_may_raise:
            if not self.decide(fn(f"ok_{op}", V, V, Bool)(ta, tb)):
                raise PyRaise(SymExc(None, (), term=fn(f"exc_{op}", V, V, V)(ta, tb), origin=f"py_{op}"))
        return SymV(fn(f"py_{op}", V, V, V)(ta, tb))

    def as_str(self, v):
        if isinstance(v, SymStr):
            return v.t
        if isinstance(v, Conc) and isinstance(v.obj, str):
            return z3.StringVal(v.obj)
        return None

    def structural_eq(self, a, b):
        """== between statically-shaped values where it is decidable here; else None."""
        if isinstance(a, (PyTuple,)) and isinstance(b, Conc) and isinstance(b.obj, tuple):
            b = PyTuple([Conc(x) for x in b.obj])
        if isinstance(b, (PyTuple,)) and isinstance(a, Conc) and isinstance(a.obj, tuple):
            a = PyTuple([Conc(x) for x in a.obj])
        if isinstance(a, PyTuple) and isinstance(b, PyTuple):
            if len(a.items) != len(b.items):
                return False
            conj = []
            for x, y in zip(a.items, b.items):
                r = self.compare("eq", x, y)
                t = self.truth(r)
                if t is False:
                    return False
                if t is not True:
                    conj.append(t)
            return z3.And(*conj) if conj else True
        if isinstance(a, SymSet) or isinstance(b, SymSet):
            try:
                return self.as_set(a) == self.as_set(b)
            except Unsupported:
                return None
        if isinstance(a, SymSeq) and isinstance(b, Conc) and b.obj == ():
            return z3.Length(a.t) == 0
        if isinstance(b, SymSeq) and isinstance(a, Conc) and a.obj == ():
            return z3.Length(b.t) == 0
        return None

    def contains(self, container, item):
        if isinstance(container, Conc) and isinstance(item, Conc):
            try:
                return Conc(item.obj in container.obj)
            except Exception as e:  # noqa: BLE001
                raise PyRaise(SymExc(type(e), (), origin="in")) from None
        if isinstance(container, Conc) and isinstance(container.obj, (dict, set, frozenset, tuple, list)) \
                and all(isinstance(k, (str, int, bool, type(None))) for k in container.obj):
            # symbolic item in concrete collection: disjunction of equalities
            disj = []
            for k in container.obj:
                r = self.compare("eq", item, Conc(k))
                t = self.truth(r)
                if t is True:
                    return Conc(True)
                if t is not False:
                    disj.append(t)
            return SymBool(z3.Or(*disj)) if disj else Conc(False)
        if isinstance(container, (PyTuple, PyList)):
            disj = []
            for k in container.items:
                r = self.compare("eq", item, k)
                t = self.truth(r)
                if t is True:
                    return Conc(True)
                if t is not False:
                    disj.append(t)
            return SymBool(z3.Or(*disj)) if disj else Conc(False)
        if isinstance(container, PyDict):
            if isinstance(item, Conc):
                return Conc(item.obj in container.d)
            disj = []
            for k in container.d:
                t = self.truth(self.compare("eq", item, Conc(k)))
                if t is True:
                    return Conc(True)
                if t is not False:
                    disj.append(t)
            return SymBool(z3.Or(*disj)) if disj else Conc(False)
        if isinstance(container, SymSet):
            return SymBool(z3.IsMember(self.lift(item), container.t))
        if isinstance(container, SymDict):
            found, _ = self.symdict_lookup(container, item)
            return Conc(found)
        if isinstance(container, SymStrMap):
            s = self.as_str(item)
            if s is None:
                s = smt.unbox_str(self.lift(item))
            return SymBool(fn("env_has", V, Str, Bool)(container.t, s))
        h = self.builtin_handlers.get("__contains_hook__")
        if h is not None:
            r = h(self, container, item)
            if r is not None:
                return r
        return SymBool(fn("py_contains", V, V, Bool)(self.lift(container), self.lift(item)))

    # ------------------------------------------------------------------ subscripts
    def subscript(self, obj, idx, node=None):
        if isinstance(idx, tuple) and idx[0] == "slice":
            return self.slice_val(obj, idx[1], idx[2], idx[3])
        if isinstance(obj, Conc) and isinstance(idx, Conc):
            try:
                return Conc(obj.obj[idx.obj])
            except Exception as e:  # noqa: BLE001
                raise PyRaise(SymExc(type(e), (idx,), origin="concrete []")) from None
        if isinstance(obj, Conc) and isinstance(obj.obj, dict):
            # concrete table, symbolic key: case split over keys
            for k in obj.obj:
                r = self.compare("eq", idx, Conc(k))
                if self.is_true(r):
                    return Conc(obj.obj[k])
            raise PyRaise(SymExc(KeyError, (idx,), origin="table lookup"))
        if isinstance(obj, PyDict):
            if isinstance(idx, Conc):
                if idx.obj in obj.d:
                    return obj.d[idx.obj]
                raise PyRaise(SymExc(KeyError, (idx,), origin="PyDict"))
            for k in obj.d:
                r = self.compare("eq", idx, Conc(k))
                if self.is_true(r):
                    return obj.d[k]
            raise PyRaise(SymExc(KeyError, (idx,), origin="PyDict"))
        if isinstance(obj, (PyTuple, PyList)) or (isinstance(obj, Conc) and isinstance(obj.obj, (tuple, list))):
            items = obj.items if not isinstance(obj, Conc) else [Conc(x) for x in obj.obj]
            if isinstance(idx, Conc) and isinstance(idx.obj, int):
                try:
                    return items[idx.obj]
                except IndexError:
                    raise PyRaise(SymExc(IndexError, (), origin="index")) from None
            i = self.as_int(idx)
            if i is not None:
                for k in range(len(items)):
                    if self.decide(i == k):
                        return items[k]
                for k in range(1, len(items) + 1):
                    if self.decide(i == -k):
                        return items[-k]
                raise PyRaise(SymExc(IndexError, (), origin="index"))
        if isinstance(obj, SymSeq):
            i = self.as_int(idx)
            if i is not None:
                n = z3.Length(obj.t)
                if self.decide(z3.And(i >= 0, i < n)):
                    el = z3.simplify(obj.t[i])
                    known = self.node_by_term.get(el.get_id())
                    return known if known is not None else SymV(el)
                if self.decide(z3.And(i < 0, i >= -n)):
                    return SymV(obj.t[n + i])
                raise PyRaise(SymExc(IndexError, (), origin="seq index"))
        if isinstance(obj, SymStrMap):
            s = self.as_str(idx)
            if s is None:
                s = smt.unbox_str(self.lift(idx))
            if self.decide(fn("env_has", V, Str, Bool)(obj.t, s)):
                return SymV(fn("env_get", V, Str, V)(obj.t, s))
            raise PyRaise(SymExc(KeyError, (idx,), origin="env"))
        if isinstance(obj, SymDict):
            found, v = self.symdict_lookup(obj, idx)
            if found:
                return v
            raise PyRaise(SymExc(KeyError, (idx,), origin=f"{obj.name}[...]"))
        if isinstance(obj, SymMap):
            r = self.coupled_map_value(obj, idx)
            if r is not None:
                return r
            raise Unsupported("subscript of symbolic-size mapping")
        h = self.builtin_handlers.get("__getitem_hook__")
        if h is not None:
            r = h(self, obj, idx)
            if r is not None:
                return r
        to, ti = self.lift(obj), self.lift(idx)
        if self.op_may_raise:
            if not self.decide(fn("ok_getitem", V, V, Bool)(to, ti)):
                raise PyRaise(SymExc(None, (), term=fn("exc_getitem", V, V, V)(to, ti), origin="py_getitem"))
        return SymV(fn("py_getitem", V, V, V)(to, ti))

    def symdict_lookup(self, d, key):
        kt = self.lift(key)
        for wk, wkey, wv in reversed(d.writes):
            if self.decide(wk == kt):
                return True, wv
        if d.base is not None:
            self.ctx.assume(z3.Implies(fn("dict_has", V, V, Bool)(d.base, kt), fn("dict_len", V, Int)(d.base) >= 1))
            if self.decide(fn("dict_has", V, V, Bool)(d.base, kt)):
                v = SymV(fn("dict_get", V, V, V)(d.base, kt))
                if getattr(d, "value_kind", None) == "int":
                    it = smt.unbox_int(v.t)
                    self.ctx.assume(smt.box_int(it) == v.t)
                    v = SymInt(it)
                if d.inv is not None:
                    d.inv(self, key, v)
                return True, v
        return False, None

    def slice_val(self, obj, lo, hi, step):
        def conc_or_none(x):
            return x is None or isinstance(x, Conc)
        if isinstance(obj, (PyTuple, PyList)) and all(conc_or_none(x) for x in (lo, hi, step)):
            sl = slice(*(None if x is None else x.obj for x in (lo, hi, step)))
            return type(obj)(obj.items[sl])
        if isinstance(obj, Conc) and all(conc_or_none(x) for x in (lo, hi, step)):
            sl = slice(*(None if x is None else x.obj for x in (lo, hi, step)))
            return Conc(obj.obj[sl])
        if isinstance(obj, SymSeq) and (step is None or (isinstance(step, Conc) and step.obj in (None, 1))):
            n = z3.Length(obj.t)

            def norm(x, default):
                if x is None or (isinstance(x, Conc) and x.obj is None):
                    return default
                i = self.as_int(x)
                if i is None:
                    raise Unsupported("slice bound")
                i = z3.If(i < 0, i + n, i)
                return z3.If(i < 0, z3.IntVal(0), z3.If(i > n, n, i))
            l, h = norm(lo, z3.IntVal(0)), norm(hi, n)
            ln = z3.If(h > l, h - l, z3.IntVal(0))
            return SymSeq(z3.simplify(z3.SubSeq(obj.t, l, ln)), obj.kind)
        if isinstance(obj, SymSeq) and isinstance(step, Conc) and step.obj == -1 and lo is None and hi is None:
            return SymSeq(fn("seq_reverse", S, S)(obj.t), obj.kind)
        raise Unsupported("slice form")

    # ------------------------------------------------------------------ expressions
    def eval(self, node, env) -> Val:
        m = getattr(self, "e_" + type(node).__name__, None)
        if m is None:
            raise Unsupported(f"expression {type(node).__name__}")
        return m(node, env)

    def e_Constant(self, node, env):
        return Conc(node.value)

    def e_Name(self, node, env):
        v = env.lookup(node.id)
        if type(v).__name__ == "Poison":
            raise Unsupported(f"loop reads variable {node.id} whose entry value could not be generalised")
        return v

    def e_Attribute(self, node, env):
        return self.getattr_val(self.eval(node.value, env), node.attr, node)

    def e_Tuple(self, node, env):
        items = self.eval_elts(node.elts, env)
        if isinstance(items, list):
            if all(isinstance(x, Conc) and not isinstance(x.obj, (types.FunctionType, type, types.ModuleType)) for x in items) and False:
                return Conc(tuple(x.obj for x in items))
            return PyTuple(items)
        return SymSeq(items, "tuple")

    def e_List(self, node, env):
        items = self.eval_elts(node.elts, env)
        if isinstance(items, list):
            return PyList(items)
        return SymSeq(items, "list")

    def eval_elts(self, elts, env):
        """list of values, or a z3 Seq when a starred element has symbolic length."""
        parts = []
        symbolic = False
        for e in elts:
            if isinstance(e, ast.Starred):
                v = self.eval(e.value, env)
                if isinstance(v, (PyTuple, PyList)):
                    parts.extend(("one", x) for x in v.items)
                elif isinstance(v, Conc) and isinstance(v.obj, (tuple, list)):
                    parts.extend(("one", Conc(x)) for x in v.obj)
                else:
                    parts.append(("many", self.as_seq(v)))
                    symbolic = True
            else:
                parts.append(("one", self.eval(e, env)))
        if not symbolic:
            return [v for _, v in parts]
        seqs = []
        for k, v in parts:
            seqs.append(z3.Unit(self.lift(v)) if k == "one" else v)
        return seqs[0] if len(seqs) == 1 else z3.Concat(*seqs)

    def e_Set(self, node, env):
        items = [self.eval(e, env) for e in node.elts]
        return self.make_set(items)

    def make_set(self, items):
        t = z3.EmptySet(V)
        for it in items:
            t = z3.SetAdd(t, self.lift(it))
        return SymSet(t)

    def as_set(self, v):
        """Value -> z3 Set(V) term."""
        if isinstance(v, SymSet):
            return v.t
        if isinstance(v, SymV):
            return fn("unbox_set", V, smt.SetV)(v.t)
        if isinstance(v, Conc) and isinstance(v.obj, (set, frozenset)):
            return self.make_set([Conc(x) for x in v.obj]).t
        raise Unsupported(f"not a set: {type(v).__name__}")

    def int_sum_of_seq(self, sq):
        """Sum of a z3 sequence all of whose elements are statically boxed ints (else None)."""
        k = sq.decl().kind()
        if k == z3.Z3_OP_SEQ_EMPTY:
            return z3.IntVal(0)
        if k == z3.Z3_OP_SEQ_UNIT:
            el = sq.arg(0)
            if el.decl().name() == "box_int":
                return el.arg(0)
            return None
        if k == z3.Z3_OP_SEQ_CONCAT:
            parts = [self.int_sum_of_seq(c) for c in sq.children()]
            if any(p is None for p in parts):
                return None
            return z3.Sum(parts)
        info = self.map_info.get(sq.get_id())
        if info is not None and info["val"].decl().name() == "box_int" and z3.is_true(info["ok"]):
            t = fn("isum", S, Int)(sq)
            self.ctx.assume(z3.Implies(z3.Length(sq) == 0, t == 0))
            return t
        return None

    def union_of_seq(self, sq):
        """Union of a z3 sequence of (boxed) sets, decomposed along its concat structure."""
        k = sq.decl().kind()
        if k == z3.Z3_OP_SEQ_EMPTY:
            return z3.EmptySet(V)
        if k == z3.Z3_OP_SEQ_UNIT:
            el = sq.arg(0)
            if el.decl().name() == "box_set":
                return el.arg(0)
            return fn("unbox_set", V, smt.SetV)(el)
        if k == z3.Z3_OP_SEQ_CONCAT:
            out = None
            for ch in sq.children():
                u = self.union_of_seq(ch)
                out = u if out is None else z3.SetUnion(out, u)
            return out
        t = fn("union_fold", S, smt.SetV)(sq)
        self.ctx.assume(z3.Implies(z3.Length(sq) == 0, t == z3.EmptySet(V)))
        return t

    def e_Dict(self, node, env):
        if not node.keys and self.empty_dict_symbolic:
            return SymDict(None, None, self.fresh_name(node, "dict"))
        d = {}
        for k, v in zip(node.keys, node.values):
            if k is None:
                raise Unsupported("dict unpacking")
            kv = self.eval(k, env)
            if not isinstance(kv, Conc):
                return self._symbolic_key_dict(node, env)
            d[kv.obj] = self.eval(v, env)
        return PyDict(d)

    def _symbolic_key_dict(self, node, env):
        """A dict display with a symbolic key ({expr: 1}): an empty symbolic dict plus one write per item, in display order (a later equal key
        overrides an earlier one, as in Python).  Not an input, so nothing leaks between paths: the value is built afresh on every path."""
        d = SymDict(None, None, self.fresh_name(node, "dictlit"))
        for k, v in zip(node.keys, node.values):
            kv = self.eval(k, env)
            vv = self.eval(v, env)
            d.writes.append((self.lift(kv), kv, vv))
        return d

    def e_BinOp(self, node, env):
        a = self.eval(node.left, env)
        b = self.eval(node.right, env)
        return self.binop(BINOPS[type(node.op)], a, b, node)

    def e_UnaryOp(self, node, env):
        return self.unop(node.op, self.eval(node.operand, env))

    def e_BoolOp(self, node, env):
        is_and = isinstance(node.op, ast.And)
        v = None
        for sub in node.values:
            v = self.eval(sub, env)
            t = self.is_true(v)
            if is_and and not t:
                return v
            if not is_and and t:
                return v
        return v

    def e_Compare(self, node, env):
        left = self.eval(node.left, env)
        result = None
        for op, rn in zip(node.ops, node.comparators):
            right = self.eval(rn, env)
            name = {ast.Is: "is", ast.IsNot: "isnot", ast.In: "in", ast.NotIn: "notin"}.get(type(op)) \
                or CMPOPS[type(op)]
            result = self.compare(name, left, right, node)
            if len(node.ops) > 1:
                if not self.is_true(result):
                    return result
            left = right
        return result

    def e_IfExp(self, node, env):
        if self.is_true(self.eval(node.test, env)):
            return self.eval(node.body, env)
        return self.eval(node.orelse, env)

    def e_Lambda(self, node, env):
        defaults = [self.eval(d, env) for d in node.args.defaults]
        kwd = {a.arg: self.eval(d, env) for a, d in zip(node.args.kwonlyargs, node.args.kw_defaults) if d is not None}
        return Closure(node, env, "<lambda>", defaults, kwd, env.globals)

    def e_NamedExpr(self, node, env):
        v = self.eval(node.value, env)
        env.assign(node.target.id, v)
        return v

    def e_JoinedStr(self, node, env):
        parts = []
        for p in node.values:
            if isinstance(p, ast.Constant):
                parts.append(p.value)
            else:
                v = self.eval(p.value, env)
                if isinstance(v, Conc) and not p.format_spec and p.conversion == -1:
                    parts.append(format(v.obj))
                else:
                    # message text is not part of any contract: opaque
                    return SymV(z3.Const(self.fresh_name(node, "fstr"), V))
        return Conc("".join(parts))

    def e_Subscript(self, node, env):
        obj = self.eval(node.value, env)
        if isinstance(node.slice, ast.Slice):
            s = node.slice
            idx = ("slice", *(None if x is None else self.eval(x, env) for x in (s.lower, s.upper, s.step)))
        else:
            idx = self.eval(node.slice, env)
        return self.subscript(obj, idx, node)

    def e_Starred(self, node, env):
        raise Unsupported("starred in unsupported position")

    def e_ListComp(self, node, env):
        r = self.comprehension(node, node.elt, node.generators, env)
        if isinstance(r, list):
            return PyList(r)
        return SymSeq(r.t, "list") if isinstance(r, SymSeq) else r

    def e_GeneratorExp(self, node, env):
        r = self.comprehension(node, node.elt, node.generators, env)
        if isinstance(r, list):
            return PyList(r)
        return r

    def e_SetComp(self, node, env):
        r = self.comprehension(node, node.elt, node.generators, env)
        if isinstance(r, list):
            return self.make_set(r)
        return SymSet(fn("set_of_seq", S, smt.SetV)(r.t))

    def e_DictComp(self, node, env):
        # only { k: f(v) for k, v in m.items() } with key passed through
        if len(node.generators) != 1:
            raise Unsupported("nested dict comprehension")
        g = node.generators[0]
        it = self.eval(g.iter, env)
        if isinstance(it, tuple) and it[0] == "items":
            m = it[1]
            if isinstance(m, PyDict):
                out = {}
                for k, v in m.d.items():
                    e2 = Env({}, env)
                    self.bind_target(g.target, PyTuple([Conc(k), v]), e2)
                    kk = self.eval(node.key, e2)
                    if not isinstance(kk, Conc):
                        raise Unsupported("symbolic dict key")
                    out[kk.obj] = self.eval(node.value, e2)
                return PyDict(out)
            if isinstance(m, SymMap) and isinstance(g.target, ast.Tuple) and len(g.target.elts) == 2 \
                    and isinstance(node.key, ast.Name) and isinstance(g.target.elts[0], ast.Name) \
                    and node.key.id == g.target.elts[0].id and not g.ifs:
                vals = self.map_over(node, node.value, [g.target], [SymZip([SymSeq(m.keys), SymSeq(m.vals)])], [[]], env)
                return SymMap(m.keys, vals.t, "dict")
        raise Unsupported("dict comprehension form")

    # ---- comprehension lifting
    def comprehension(self, node, elt, generators, env):
        if len(generators) != 1:
            raise Unsupported("nested comprehension")
        g = generators[0]
        it = self.eval(g.iter, env)
        conc = self.concrete_iter(it)
        if conc is not None:
            out = []
            for item in conc:
                e2 = Env({}, env)
                self.bind_target(g.target, item, e2)
                if all(self.is_true(self.eval(c, e2)) for c in g.ifs):
                    out.append(self.eval(elt, e2))
            return out
        return self.map_over(node, elt, [g.target], [it], [g.ifs], env)

    def concrete_iter(self, it):
        """Python list of item values when the iterable has statically known length."""
        if isinstance(it, (PyTuple, PyList)):
            return list(it.items)
        if isinstance(it, Conc):
            o = it.obj
            if isinstance(o, (tuple, list, range, str, dict, set, frozenset)) or isinstance(o, types.GeneratorType) \
                    or type(o).__name__ in ("dict_items", "dict_keys", "dict_values", "zip", "enumerate", "map"):
                return [Conc(x) if not isinstance(x, tuple) else PyTuple([Conc(y) for y in x]) for x in o]
            return None
        if isinstance(it, PyDict):
            return [Conc(k) for k in it.d]
        if isinstance(it, tuple):
            kind = it[0]
            if kind == "items" and isinstance(it[1], PyDict):
                return [PyTuple([Conc(k), v]) for k, v in it[1].d.items()]
            if kind == "values" and isinstance(it[1], PyDict):
                return list(it[1].d.values())
            if kind == "keys" and isinstance(it[1], PyDict):
                return [Conc(k) for k in it[1].d]
            return None
        if isinstance(it, SymZip):
            parts = [self.concrete_iter(p) for p in it.parts]
            if all(p is not None for p in parts):
                return [PyTuple(list(t)) for t in zip(*parts)]
            return None
        if isinstance(it, SymEnumerate):
            p = self.concrete_iter(it.seq)
            if p is not None:
                return [PyTuple([Conc(i + it.start), x]) for i, x in enumerate(p)]
            return None
        return None

    def iter_parts(self, it):
        """Symbolic iterable -> list of z3 sequences iterated in parallel (+ shape for binding)."""
        if isinstance(it, SymZip):
            return [self.as_seq(p) for p in it.parts], "zip"
        if isinstance(it, tuple) and it[0] == "items" and isinstance(it[1], SymMap):
            return [it[1].keys, it[1].vals], "zip"
        if isinstance(it, tuple) and it[0] == "values" and isinstance(it[1], SymMap):
            return [it[1].vals], "one"
        if isinstance(it, tuple) and it[0] == "keys" and isinstance(it[1], SymMap):
            return [it[1].keys], "one"
        if isinstance(it, SymMap):
            return [it.keys], "one"
        return [self.as_seq(it)], "one"

    def map_over(self, node, elt, targets, iters, ifs, env):
        """Lift `elt for target in iter [if ...]` over a symbolic-length iterable to a Map term."""
        seqs, shape = self.iter_parts(iters[0])
        target = targets[0]

        def body(bvals):
            e2 = Env({}, env)
            if shape == "zip":
                self.bind_target(target, PyTuple(list(bvals)), e2)
            else:
                self.bind_target(target, bvals[0], e2)
            for cnd in ifs[0]:
                if not self.is_true(self.eval(cnd, e2)):
                    return None
            return self.eval(elt, e2)
        return self.map_over_fn(node, seqs, body)

    def map_over_fn(self, node, seqs, body, tag="bv"):
        """Map a Python-level body (list of bound values -> Val | None) over parallel z3 sequences."""
        # distribution over the concat structure of the sequence: map(f, a ++ [x] ++ b)
        if len(seqs) == 1:
            sq = z3.simplify(seqs[0]) if seqs[0].decl().kind() in (z3.Z3_OP_SEQ_CONCAT,) else seqs[0]
            k = sq.decl().kind()
            if k in (z3.Z3_OP_SEQ_CONCAT, z3.Z3_OP_SEQ_UNIT, z3.Z3_OP_SEQ_EMPTY):
                parts = sq.children() if k == z3.Z3_OP_SEQ_CONCAT else [sq]
                out_parts = []
                for part in parts:
                    pk = part.decl().kind()
                    if pk == z3.Z3_OP_SEQ_EMPTY:
                        continue
                    if pk == z3.Z3_OP_SEQ_UNIT:
                        r = body([SymV(part.arg(0))])
                        if r is not None:
                            out_parts.append(z3.Unit(self.lift(r)))
                    else:
                        r = self.map_over_fn(node, [part], body, tag)
                        out_parts.append(r.t)
                if not out_parts:
                    return SymSeq(z3.Empty(S), "list")
                return SymSeq(out_parts[0] if len(out_parts) == 1 else z3.Concat(*out_parts), "list")
        # fusion: mapping over a sequence that is itself a (total, unfiltered) map composes the bodies
        pre = []
        base_seqs = []
        bvs = []
        for i, sq in enumerate(seqs):
            info = self.map_info.get(sq.get_id())
            if info is not None and z3.is_true(info["ok"]) and z3.is_true(info["keep"]) and len(seqs) == 1:
                pre.append(info)
                base_seqs = list(info["seqs"])
                bvs = list(info["bvs"])
            else:
                pre.append(None)
        if pre and pre[0] is not None and len(seqs) == 1:
            inner_val = pre[0]["val"]
            bound_vals = [SymV(inner_val)]
            seqs = base_seqs
        else:
            bvs = [z3.Const(self.fresh_name(node, f"{tag}{i}"), V) for i in range(len(seqs))]
            bound_vals = [SymV(b) for b in bvs]
        frame = dict(seqs=list(seqs), bvs=list(bvs), node=node)
        self.map_stack.append(frame)
        self.pure_depth += 1
        try:
            outs = self.explore(lambda: body(bound_vals))
        finally:
            self.pure_depth -= 1
            self.map_stack.pop()
        seqs, bvs = frame["seqs"], frame["bvs"]
        val_t, ok_t, keep_t = self.merge_outcomes(outs)
        if self.rewrites:
            val_t = z3.simplify(z3.substitute(val_t, *self.rewrites))
            ok_t = z3.simplify(z3.substitute(ok_t, *self.rewrites))
        return self.map_term(node, bvs, seqs, val_t, ok_t, keep_t)

    rewrites: list = []
    map_stack: list = []

    def coupled_map_value(self, m, idx):
        """m[k] where k is the bound variable of an enclosing lifted iteration over m's own keys:
        the value at the same position (mapping keys are distinct)."""
        try:
            it = self.lift(idx)
        except Unsupported:
            return None
        for frame in reversed(self.map_stack):
            for i, sq in enumerate(frame["seqs"]):
                if z3.eq(sq, m.keys) and z3.eq(it, frame["bvs"][i]):
                    for j, sq2 in enumerate(frame["seqs"]):
                        if z3.eq(sq2, m.vals):
                            return SymV(frame["bvs"][j])
                    nb = z3.Const(self.fresh_name(frame["node"], f"bvx{len(frame['bvs'])}"), V)
                    frame["seqs"].append(m.vals)
                    frame["bvs"].append(nb)
                    return SymV(nb)
        return None

    def merge_outcomes(self, outs):
        """ITE-merge of the outcomes of a lifted body: (value term, ok term, keep term)."""
        val_t = None
        ok_disj = []
        keep_disj = []
        for o in outs:
            pc = z3.And(*o.pcs) if o.pcs else z3.BoolVal(True)
            if o.kind == "ret":
                ok_disj.append(pc)
                if o.value is None:
                    continue
                keep_disj.append(pc)
                t = self.lift(o.value)
                val_t = t if val_t is None else z3.If(pc, t, val_t)
        if val_t is None:
            val_t = smt.NoneV
        ok_t = z3.simplify(z3.Or(*ok_disj)) if ok_disj else z3.BoolVal(False)
        n_exc = sum(1 for o in outs if o.kind == "exc")
        if n_exc == 0:
            ok_t = z3.BoolVal(True)
        all_kept = all(o.value is not None for o in outs if o.kind == "ret")
        keep_t = z3.BoolVal(True) if all_kept else z3.simplify(z3.Or(*keep_disj))
        return z3.simplify(val_t), ok_t, keep_t

    def free_consts(self, terms, bound):
        seen = {}
        bset = {b.get_id() for b in bound}

        def walk(t):
            if z3.is_const(t) and t.decl().kind() == z3.Z3_OP_UNINTERPRETED:
                if t.get_id() not in bset and t.get_id() not in seen:
                    seen[t.get_id()] = t
                return
            for ch in t.children():
                walk(ch)
        for t in terms:
            walk(t)
        return list(seen.values())

    def used_consts(self, terms):
        seen = {}

        def walk(t):
            if z3.is_const(t) and t.decl().kind() == z3.Z3_OP_UNINTERPRETED:
                seen[t.get_id()] = t
                return
            for ch in t.children():
                walk(ch)
        for t in terms:
            walk(t)
        return list(seen.values())

    def canon_key(self, terms, bound, free):
        subs = []
        for i, b in enumerate(bound):
            subs.append((b, z3.Const(f"%b{i}", b.sort())))
        for i, f in enumerate(free):
            subs.append((f, z3.Const(f"%f{i}", f.sort())))
        txt = "|".join(z3.substitute(t, *subs).sexpr() for t in terms)
        import hashlib
        return hashlib.sha1(txt.encode()).hexdigest()[:10], txt

    def map_term(self, node, bvs, seqs, val_t, ok_t, keep_t):
        c = self.ctx
        # identity map
        if len(bvs) == 1 and z3.eq(val_t, bvs[0]) and z3.is_true(ok_t) and z3.is_true(keep_t):
            return SymSeq(seqs[0], "list")
        # drop parallel sequences whose bound variable is unused (when provably of equal length)
        if len(bvs) > 1:
            used = {x.get_id() for x in self.used_consts([val_t, ok_t, keep_t])}
            keep_idx = [i for i, b in enumerate(bvs) if b.get_id() in used]
            if not keep_idx:
                keep_idx = [0]
            if len(keep_idx) < len(bvs):
                ref = seqs[keep_idx[0]]
                droppable = True
                for i in range(len(bvs)):
                    if i not in keep_idx:
                        r, _ = smt.check(c, self.pcs + [z3.Length(seqs[i]) != z3.Length(ref)], rlimit=self.rlimit)
                        if r != "unsat":
                            droppable = False
                if droppable:
                    bvs = [bvs[i] for i in keep_idx]
                    seqs = [seqs[i] for i in keep_idx]
        if len(bvs) == 1 and z3.eq(val_t, bvs[0]) and z3.is_true(ok_t) and z3.is_true(keep_t):
            return SymSeq(seqs[0], "list")
        free = self.free_consts([val_t, ok_t, keep_t], bvs)
        key, txt = self.canon_key([val_t, ok_t, keep_t], bvs, free)
        fsorts = [f.sort() for f in free]
        args = list(seqs) + free
        mp = fn(f"map!{key}", *([S] * len(seqs)), *fsorts, S)(*args)
        self.map_defs[key] = (txt, len(seqs))
        if not z3.is_true(ok_t):
            okf = fn(f"mapok!{key}", *([S] * len(seqs)), *fsorts, Bool)(*args)
            if not self.decide(okf):
                exc = fn(f"mapexc!{key}", *([S] * len(seqs)), *fsorts, V)(*args)
                raise PyRaise(SymExc(None, (), term=exc, origin=f"map body {key}"))
        if z3.is_true(keep_t):
            ln = z3.Length(seqs[0])
            for s in seqs[1:]:
                ln = z3.If(z3.Length(s) < ln, z3.Length(s), ln)
            c.assume(z3.Length(mp) == ln)
        else:
            c.assume(z3.Length(mp) <= z3.Length(seqs[0]))
        r = SymSeq(mp, "list")
        self.map_info[mp.get_id()] = dict(key=key, bvs=bvs, seqs=seqs, val=val_t, ok=ok_t, keep=keep_t,
                                          free=free, term=mp)
        return r

    map_defs: dict = {}
    map_info: dict = {}

    def bind_target(self, target, val, env):
        if isinstance(target, ast.Name):
            env.assign(target.id, val)
            return
        if isinstance(target, (ast.Tuple, ast.List)):
            items = self.unpack(val, len(target.elts), target)
            for t, v in zip(target.elts, items):
                self.bind_target(t, v, env)
            return
        if isinstance(target, ast.Attribute):
            self.setattr_val(self.eval(target.value, env), target.attr, val)
            return
        if isinstance(target, ast.Subscript):
            obj = self.eval(target.value, env)
            idx = self.eval(target.slice, env)
            self.setitem(obj, idx, val)
            return
        raise Unsupported(f"assignment target {type(target).__name__}")

    def setitem(self, obj, idx, val):
        if self.pure_depth:
            raise Unsupported("mutation inside lifted body")
        if isinstance(obj, PyDict) and isinstance(idx, Conc):
            obj.d[idx.obj] = val
            return
        if isinstance(obj, PyDict) and not obj.d:
            # an empty literal dict that receives a symbolic key becomes a symbolic dict in place
            raise Unsupported("symbolic key stored into a literal dict (use SymDict via e_Dict promotion)")
        if isinstance(obj, SymDict):
            self.ghost_log.append(("dict-write", obj, idx, val))
            obj.writes.append((self.lift(idx), idx, val))
            return
        if isinstance(obj, PyList) and isinstance(idx, Conc) and isinstance(idx.obj, int):
            obj.items[idx.obj] = val
            return
        h = self.builtin_handlers.get("__setitem_hook__")
        if h is not None and h(self, obj, idx, val):
            return
        raise Unsupported(f"setitem on {type(obj).__name__}")

    def unpack(self, val, n, node=None):
        if isinstance(val, (PyTuple, PyList)):
            if len(val.items) != n:
                raise PyRaise(SymExc(ValueError, (), origin="unpack"))
            return list(val.items)
        if isinstance(val, Conc) and isinstance(val.obj, (tuple, list)):
            if len(val.obj) != n:
                raise PyRaise(SymExc(ValueError, (), origin="unpack"))
            return [Conc(x) for x in val.obj]
        if isinstance(val, SymSeq):
            if not self.decide(z3.Length(val.t) == n):
                raise PyRaise(SymExc(ValueError, (), origin="unpack"))
            return [SymV(val.t[i]) for i in range(n)]
        if isinstance(val, SymV):
            s = smt.unbox_tup(val.t)
            self.ctx.assume(z3.Length(s) >= 0)
            # element pairs from symbolic sequences of tuples (e.g. polynomial data)
            return [SymV(fn("py_getitem", V, V, V)(val.t, self.lift(Conc(i)))) for i in range(n)]
        raise Unsupported(f"unpack {type(val).__name__}")

    # ------------------------------------------------------------------ calls
    def e_Call(self, node, env):
        if isinstance(node.func, ast.Name) and node.func.id == "super" and not node.args:
            e = env
            while e is not None and not hasattr(e, "func_owner"):
                e = e.parent
            if e is None or e.func_owner is None or e.func_self is None:
                raise Unsupported("super() without known owner class")
            return SuperProxy(e.func_self, e.func_owner)
        f = self.eval(node.func, env)
        args = []
        star_seq = None
        for a in node.args:
            if isinstance(a, ast.Starred):
                v = self.eval(a.value, env)
                ci = self.concrete_iter(v)
                if ci is not None and star_seq is None:
                    args.extend(ci)
                else:
                    s = self.as_seq(v)
                    star_seq = s if star_seq is None else z3.Concat(star_seq, s)
            else:
                v = self.eval(a, env)
                if star_seq is not None:
                    star_seq = z3.Concat(star_seq, z3.Unit(self.lift(v)))
                else:
                    args.append(v)
        kwargs = {}
        dstar = None
        for k in node.keywords:
            if k.arg is None:
                v = self.eval(k.value, env)
                if isinstance(v, PyDict):
                    for kk, vv in v.d.items():
                        kwargs[kk] = vv
                elif isinstance(v, Conc) and isinstance(v.obj, dict):
                    for kk, vv in v.obj.items():
                        kwargs[kk] = Conc(vv)
                elif isinstance(v, SymMap):
                    if dstar is not None:
                        raise Unsupported("two symbolic ** arguments")
                    dstar = v
                else:
                    raise Unsupported(f"** of {type(v).__name__}")
            else:
                kwargs[k.arg] = self.eval(k.value, env)
        return self.call(f, args, kwargs, star_seq, dstar, node)

    def call(self, f, args, kwargs, star=None, dstar=None, node=None):
        if isinstance(f, BoundMethod):
            if isinstance(f.func, tuple) and f.func[0] == "valmethod":
                if star is not None or dstar is not None:
                    raise Unsupported("star args to value method")
                from .builtins_sem import value_method
                return value_method(self, f.self_val, f.func[1], args, kwargs, node)
            if isinstance(f.func, NativeHandler):
                # contract handler bound to an object (rec)
                return f.func.fn(self, f.self_val, args, kwargs, star, dstar, node)
            return self.call_function(Conc(f.func) if isinstance(f.func, types.FunctionType) else f.func,
                                      [f.self_val, *args], kwargs, star, dstar, node, owner=f.owner)
        if isinstance(f, Closure):
            return self.call_function(f, args, kwargs, star, dstar, node)
        if isinstance(f, NativeHandler):
            return f.fn(self, args, kwargs, star, dstar, node)
        if isinstance(f, Conc):
            return self.call_function(f, args, kwargs, star, dstar, node)
        if isinstance(f, SymV):
            return self.py_call(f, args, kwargs, star, dstar)
        if isinstance(f, SymObj):
            for k in f.cls.__mro__:
                if "__call__" in k.__dict__:
                    return self.call_function(Conc(k.__dict__["__call__"]), [f, *args], kwargs, star, dstar, node, owner=k)
            raise PyRaise(SymExc(TypeError, (), origin="not callable"))
        if isinstance(f, SymNode):
            m = inspect.getattr_static(f.cls, "__call__", None)
            if isinstance(m, types.FunctionType):
                return self.call_function(Conc(m), [f, *args], kwargs, star, dstar, node)
        raise Unsupported(f"call of {type(f).__name__}")

    def py_call(self, f, args, kwargs, star, dstar):
        """Call of an unknown callable: uninterpreted outcome of (f, args, kwargs)."""
        c = self.ctx
        tf = self.lift(f)
        a = smt.seq_of(c, [self.lift(x) for x in args])
        if star is not None:
            a = z3.Concat(a, star) if args else star
        kk = smt.seq_of(c, [self.lift(Conc(k)) for k in kwargs])
        kv = smt.seq_of(c, [self.lift(v) for v in kwargs.values()])
        if dstar is not None:
            kk = z3.Concat(kk, dstar.keys) if kwargs else dstar.keys
            kv = z3.Concat(kv, dstar.vals) if kwargs else dstar.vals
        if self.op_may_raise:
            if not self.decide(fn("ok_call", V, S, S, S, Bool)(tf, a, kk, kv)):
                raise PyRaise(SymExc(None, (), term=fn("exc_call", V, S, S, S, V)(tf, a, kk, kv), origin="py_call"))
        return SymV(fn("py_call", V, S, S, S, V)(tf, a, kk, kv))

    def call_function(self, f, args, kwargs, star=None, dstar=None, node=None, owner=None):
        if isinstance(f, Closure):
            return self.run_function(f.node, f.env, f.module_globals, args, kwargs, star, dstar,
                                     f.defaults, f.kwdefaults, name=f.name, owner=f.owner)
        obj = f.obj
        h = self.contracts.get(id(obj))
        if h is not None:
            return h(self, args, kwargs, star, dstar, node)
        try:
            bh = self.builtin_handlers.get(obj)
        except TypeError:
            bh = None
        if bh is not None:
            return bh(self, args, kwargs, star, dstar, node)
        if isinstance(obj, type):
            return self.call_class(obj, args, kwargs, star, dstar, node)
        if isinstance(obj, types.MethodType):
            return self.call_function(Conc(obj.__func__), [Conc(obj.__self__), *args], kwargs, star, dstar, node)
        if isinstance(obj, types.FunctionType):
            sp = self.specs.get(id(obj))
            if sp is not None:
                return sp(self, obj, args, kwargs, star, dstar, node)
            if self.inline_ok(obj):
                info = loader.get_func_info(obj)
                defaults = [Conc(d) for d in (obj.__defaults__ or ())]
                kwd = {k: Conc(v) for k, v in (obj.__kwdefaults__ or {}).items()}
                cells = {}
                if obj.__closure__:
                    for nm, cell in zip(obj.__code__.co_freevars, obj.__closure__):
                        try:
                            cells[nm] = Conc(cell.cell_contents)
                        except ValueError:
                            pass
                env = Env(cells, None, obj.__globals__)
                return self.run_function(info.node, env, obj.__globals__, args, kwargs, star, dstar,
                                         defaults, kwd, name=obj.__qualname__, owner=owner)
            raise Unsupported(f"call of external function {getattr(obj, '__module__', '?')}.{obj.__qualname__}")
        if (star is None and dstar is None and all(isinstance(a, Conc) for a in args)
                and all(isinstance(v, Conc) for v in kwargs.values())
                and isinstance(obj, (types.BuiltinFunctionType, types.BuiltinMethodType, types.MethodWrapperType,
                                     types.MethodDescriptorType))):
            from .builtins_sem import PURE_CONCRETE_OK
            if PURE_CONCRETE_OK(obj):
                try:
                    return Conc(obj(*[a.obj for a in args], **{k: v.obj for k, v in kwargs.items()}))
                except Exception as e:  # noqa: BLE001
                    raise PyRaise(SymExc(type(e), (), origin="concrete builtin")) from None
        if isinstance(obj, types.BuiltinMethodType) and isinstance(getattr(obj, "__self__", None), str) \
                and obj.__name__ in ("format", "join", "__mod__"):
            return SymV(z3.Const(self.fresh_name(node, "text"), V))   # message text: opaque
        raise Unsupported(f"call of {obj!r}")

    def call_class(self, cls, args, kwargs, star, dstar, node):
        if issubclass(cls, BaseException):
            return Conc(("exc", cls, tuple(args)))
        if dataclasses.is_dataclass(cls) and self.is_expr_class(cls):
            if star is not None or dstar is not None:
                raise Unsupported("star args to node constructor")
            return self.construct_node(cls, args, kwargs, node)
        if cls.__module__.startswith("pymbolic") and inspect.getattr_static(cls, "__init__", None) is object.__init__ \
                and inspect.getattr_static(cls, "__new__") is object.__new__ and not args and not kwargs:
            return SymObj(cls, {}, z3.Const(self.fresh_name(node, f"new_{cls.__name__}"), V))
        if cls.__module__.startswith("pymbolic") and isinstance(inspect.getattr_static(cls, "__init__", None), types.FunctionType) \
                and inspect.getattr_static(cls, "__new__") is object.__new__:
            obj = SymObj(cls, {}, z3.Const(self.fresh_name(node, f"new_{cls.__name__}"), V))
            init = None
            for k in cls.__mro__:
                if "__init__" in k.__dict__:
                    init = (k, k.__dict__["__init__"])
                    break
            self.call_function(Conc(init[1]), [obj, *args], kwargs, star, dstar, node, owner=init[0])
            return obj
        raise Unsupported(f"instantiation of {cls.__name__}")

    def is_expr_class(self, cls):
        import pymbolic.primitives as p
        return issubclass(cls, p.Expression)

    def run_function(self, fnode, env, globals_, args, kwargs, star, dstar, defaults, kwdefaults,
                     name="", owner=None):
        if self.call_depth > 40:
            raise Unsupported("call depth")
        a = fnode.args
        local = {}
        params = [x.arg for x in a.posonlyargs + a.args]
        args = list(args)
        nparams = len(params)
        if len(args) > nparams:
            if a.vararg is None:
                raise PyRaise(SymExc(TypeError, (), origin=f"too many args to {name}"))
            extra = args[nparams:]
            args = args[:nparams]
            if star is not None:
                local[a.vararg.arg] = SymSeq(z3.Concat(smt.seq_of(self.ctx, [self.lift(x) for x in extra]), star))
            else:
                local[a.vararg.arg] = PyTuple(extra)
        else:
            if star is not None:
                if len(args) < nparams and any(p not in kwargs for p in params[len(args):]):
                    # symbolic-length *args feeding named parameters: bind by index with length case split
                    missing = [p for p in params[len(args):] if p not in kwargs]
                    ndef = len(defaults)
                    need_min = len([p for p in missing if params.index(p) < nparams - ndef])
                    ln = z3.Length(star)
                    bound = False
                    for k in range(need_min, len(missing) + 1):
                        if a.vararg is None and k == len(missing):
                            cond = ln == k
                        elif k == len(missing):
                            cond = ln >= k
                        else:
                            cond = ln == k
                        if self.decide(cond):
                            for i in range(k):
                                args.append(SymV(star[i]))
                            if k == len(missing) and a.vararg is not None:
                                local[a.vararg.arg] = SymSeq(z3.simplify(z3.SubSeq(star, z3.IntVal(k), ln - k)))
                            elif a.vararg is not None:
                                local[a.vararg.arg] = PyTuple([])
                            bound = True
                            break
                    if not bound:
                        raise PyRaise(SymExc(TypeError, (), origin=f"arity of {name}"))
                elif a.vararg is not None:
                    local[a.vararg.arg] = SymSeq(star)
                else:
                    if not self.decide(z3.Length(star) == 0):
                        raise PyRaise(SymExc(TypeError, (), origin=f"too many args to {name}"))
            elif a.vararg is not None:
                local[a.vararg.arg] = PyTuple([])
        for p, v in zip(params, args):
            local[p] = v
        kwargs = dict(kwargs)
        for i, p in enumerate(params[len(args):], start=len(args)):
            if p in kwargs:
                local[p] = kwargs.pop(p)
            else:
                di = i - (nparams - len(defaults))
                if di >= 0:
                    local[p] = defaults[di]
                else:
                    raise PyRaise(SymExc(TypeError, (), origin=f"missing arg {p} to {name}"))
        for ka in a.kwonlyargs:
            if ka.arg in kwargs:
                local[ka.arg] = kwargs.pop(ka.arg)
            elif ka.arg in kwdefaults:
                local[ka.arg] = kwdefaults[ka.arg]
            else:
                raise PyRaise(SymExc(TypeError, (), origin=f"missing kw {ka.arg}"))
        if a.kwarg is not None:
            if dstar is not None:
                if kwargs:
                    c = self.ctx
                    local[a.kwarg.arg] = SymMap(
                        z3.Concat(smt.seq_of(c, [self.lift(Conc(k)) for k in kwargs]), dstar.keys),
                        z3.Concat(smt.seq_of(c, [self.lift(v) for v in kwargs.values()]), dstar.vals))
                else:
                    local[a.kwarg.arg] = dstar
            else:
                local[a.kwarg.arg] = PyDict(kwargs)
        else:
            if kwargs:
                raise PyRaise(SymExc(TypeError, (), origin=f"unexpected kw {list(kwargs)} to {name}"))
            if dstar is not None:
                if not self.decide(z3.Length(dstar.keys) == 0):
                    raise PyRaise(SymExc(TypeError, (), origin=f"unexpected **kw to {name}"))
        tfc = getattr(self, "top_frame_contract", None)
        if tfc is not None and tfc[1] is not None:
            self.contracts[tfc[0]] = tfc[1]        # inside the top frame, recursive calls see the contract again
            self.top_frame_contract = None
        fenv = Env(local, env, globals_)
        fenv.func_owner = owner
        fenv.func_self = args[0] if args else None
        self.call_depth += 1
        try:
            if isinstance(fnode, ast.Lambda):
                return self.eval(fnode.body, fenv)
            try:
                self.exec_block(fnode.body, fenv)
            except _Return as r:
                return r.v
            return Conc(None)
        finally:
            self.call_depth -= 1

    # ------------------------------------------------------------------ statements
    def exec_block(self, stmts, env):
        for s in stmts:
            m = getattr(self, "s_" + type(s).__name__, None)
            if m is None:
                raise Unsupported(f"statement {type(s).__name__}")
            m(s, env)

    def s_Expr(self, s, env):
        if isinstance(s.value, ast.Constant):
            return
        self.eval(s.value, env)

    def s_Pass(self, s, env):
        pass

    def s_Return(self, s, env):
        raise _Return(self.eval(s.value, env) if s.value is not None else Conc(None))

    def s_Assign(self, s, env):
        v = self.eval(s.value, env)
        for t in s.targets:
            self.bind_target(t, v, env)

    def s_AnnAssign(self, s, env):
        if s.value is not None:
            self.bind_target(s.target, self.eval(s.value, env), env)

    def s_AugAssign(self, s, env):
        if isinstance(s.target, ast.Name):
            cur = env.lookup(s.target.id)
        elif isinstance(s.target, ast.Attribute):
            cur = self.getattr_val(self.eval(s.target.value, env), s.target.attr)
        elif isinstance(s.target, ast.Subscript):
            cur = self.subscript(self.eval(s.target.value, env), self.eval(s.target.slice, env))
        else:
            raise Unsupported("augassign target")
        rhs = self.eval(s.value, env)
        op = BINOPS[type(s.op)]
        if isinstance(cur, SymList) and op == "add":        # list += iterable: in-place extend
            if self.pure_depth:
                raise Unsupported("mutation inside lifted body")
            cur.t = z3.Concat(cur.t, self.as_seq(rhs))
            return
        if isinstance(cur, PyList) and op == "add":
            if self.pure_depth:
                raise Unsupported("mutation inside lifted body")
            ci = self.concrete_iter(rhs)
            if ci is None:
                h = self.builtin_handlers.get("__list_extend_hook__")
                if h is not None and h(self, cur, rhs):
                    return
                raise Unsupported("list += symbolic sequence")
            cur.items.extend(ci)
            return
        self.bind_target(s.target, self.binop(op, cur, rhs, s), env)

    def s_If(self, s, env):
        if self.is_true(self.eval(s.test, env)):
            self.exec_block(s.body, env)
        else:
            self.exec_block(s.orelse, env)

    def s_Assert(self, s, env):
        if not self.is_true(self.eval(s.test, env)):
            raise PyRaise(SymExc(AssertionError, (), origin=f"assert line {s.lineno}"))

    def s_Raise(self, s, env):
        if s.exc is None:
            cur = getattr(env, "current_exc", None)
            e = env
            while cur is None and e is not None:
                cur = getattr(e, "current_exc", None)
                e = e.parent
            if cur is None:
                raise Unsupported("bare raise outside handler")
            raise PyRaise(cur)
        v = self.eval(s.exc, env)
        raise PyRaise(self.to_exc(v, s))

    def to_exc(self, v, node=None):
        if isinstance(v, Conc):
            o = v.obj
            if isinstance(o, tuple) and len(o) == 3 and o[0] == "exc":
                return SymExc(o[1], o[2], origin=f"raise line {getattr(node, 'lineno', '?')}")
            if isinstance(o, type) and issubclass(o, BaseException):
                return SymExc(o, (), origin=f"raise line {getattr(node, 'lineno', '?')}")
            if isinstance(o, BaseException):
                return SymExc(type(o), tuple(Conc(a) for a in o.args), origin="raise")
        raise Unsupported("raise of non-exception")

    def exc_matches(self, exc: SymExc, handler_type):
        """Does `except handler_type` catch exc? python bool (forking when unknown)."""
        types_ = handler_type if isinstance(handler_type, tuple) else (handler_type,)
        if exc.kind is not None:
            return any(issubclass(exc.kind, t) for t in types_)
        # unknown exception kind: symbolic
        conds = []
        for t in types_:
            if t in (Exception, BaseException):
                return True
            conds.append(fn("exc_isinstance", V, Int, Bool)(exc.term, z3.IntVal(self.cls_id(t))))
        return self.decide(z3.Or(*conds))

    def s_Try(self, s, env):
        if s.finalbody:
            raise Unsupported("try/finally")
        try:
            self.exec_block(s.body, env)
        except PyRaise as e:
            for h in s.handlers:
                if h.type is None:
                    matched = True
                else:
                    tv = self.eval(h.type, env)
                    if isinstance(tv, PyTuple):
                        tv = Conc(tuple(x.obj for x in tv.items))
                    if not isinstance(tv, Conc):
                        raise Unsupported("symbolic except type")
                    matched = self.exc_matches(e.exc, tv.obj)
                if matched:
                    if h.name:
                        env.assign(h.name, Conc(("excobj", e.exc)))
                    old = getattr(env, "current_exc", None)
                    env.current_exc = e.exc
                    try:
                        self.exec_block(h.body, env)
                    finally:
                        env.current_exc = old
                    return
            raise
        else:
            self.exec_block(s.orelse, env)

    def s_Import(self, s, env):
        import importlib
        for al in s.names:
            mod = importlib.import_module(al.name)
            if al.asname:
                env.assign(al.asname, Conc(mod))
            else:
                env.assign(al.name.split(".")[0], Conc(importlib.import_module(al.name.split(".")[0])))

    def s_ImportFrom(self, s, env):
        import importlib
        pkg = env.globals.get("__package__") or env.globals.get("__name__", "").rpartition(".")[0]
        modname = ("." * s.level) + (s.module or "")
        mod = importlib.import_module(modname, pkg) if s.level else importlib.import_module(s.module)
        for al in s.names:
            try:
                obj = getattr(mod, al.name)
            except AttributeError:
                obj = importlib.import_module(f"{mod.__name__}.{al.name}")
            env.assign(al.asname or al.name, Conc(obj))

    def s_FunctionDef(self, s, env):
        defaults = [self.eval(d, env) for d in s.args.defaults]
        kwd = {a.arg: self.eval(d, env) for a, d in zip(s.args.kwonlyargs, s.args.kw_defaults) if d is not None}
        env.assign(s.name, Closure(s, env, s.name, defaults, kwd, env.globals))

    def s_Global(self, s, env):
        raise Unsupported("global statement")

    def s_Nonlocal(self, s, env):
        raise Unsupported("nonlocal statement")

    def s_Delete(self, s, env):
        for t in s.targets:
            if isinstance(t, ast.Subscript):
                obj = self.eval(t.value, env)
                idx = self.eval(t.slice, env)
                if isinstance(obj, PyDict) and isinstance(idx, Conc):
                    if idx.obj not in obj.d:
                        raise PyRaise(SymExc(KeyError, (idx,), origin="del"))
                    del obj.d[idx.obj]
                    continue
            raise Unsupported("del form")

    def s_For(self, s, env):
        it = self.eval(s.iter, env)
        conc = self.concrete_iter(it)
        if conc is None:
            h = self.builtin_handlers.get("__for_hook__")
            if h is not None and h(self, s, it, env):
                return
            raise Unsupported(f"for loop over symbolic iterable at line {s.lineno} (no invariant/lifting)")
        broke = False
        for item in conc:
            self.bind_target(s.target, item, env)
            try:
                self.exec_block(s.body, env)
            except _Break:
                broke = True
                break
            except _Continue:
                continue
        if not broke:
            self.exec_block(s.orelse, env)

    def s_While(self, s, env):
        h = self.builtin_handlers.get("__while_hook__")
        if h is not None and h(self, s, env):
            return
        # concrete unrolling only as long as the test is decided without forking
        n = 0
        while True:
            t = self.truth(self.eval(s.test, env))
            if not isinstance(t, bool):
                t2 = z3.simplify(t)
                if z3.is_true(t2):
                    t = True
                elif z3.is_false(t2):
                    t = False
                else:
                    raise Unsupported(f"while loop with symbolic condition at line {s.lineno} (no invariant)")
            if not t:
                break
            n += 1
            if n > 200:
                raise Unsupported("while unrolling bound")
            try:
                self.exec_block(s.body, env)
            except _Break:
                return
            except _Continue:
                continue
        self.exec_block(s.orelse, env)

    def s_Break(self, s, env):
        raise _Break()

    def s_Continue(self, s, env):
        raise _Continue()
